(* C10 driver.  Input (argv[1]): one line per case, "<scenario> ||| <line printed by harness/C10/pool_harness>".
   For each case: (1) folds the extracted Coq transition function [lstep_gen] over the event trace of the REAL
   thread pool: every event must be accepted (the observed atomic values, notify_one targets and user-event
   payloads are part of the events, so they must equal the model's); (2) for a DEADLOCK line compares the
   component state printed by the harness with the model's and classifies the rest state with the Coq
   definitions [quiescentb] / [stranded]; (3) evaluates a direct checker of the property on the trace alone
   (independent of the model).  Prints ONE line per case.
   argv[2] = "shipped" replays against the model of the shipped code (notify_one) instead of the repaired one. *)
open C10_model

let rec nat_of_int n = if n <= 0 then O else S (nat_of_int (n - 1))
let rec int_of_nat = function O -> 0 | S n -> 1 + int_of_nat n
let split c s = String.split_on_char c s
let nonempty l = List.filter (fun s -> s <> "") l

(* ---------------------------------------------------------------- scenario *)
type scen = { w : int; jobs : (int * string list) list; cls : string list list; mops : string list; sp : bool; init : int }

let parse_ops s = if s = "-" || s = "" then [] else nonempty (split '.' s)
let parse_scen (s : string) : scen =
  let sc = ref { w = 1; jobs = []; cls = []; mops = []; sp = false; init = -1 } in
  List.iter (fun tok ->
    match String.index_opt tok '=' with
    | None -> failwith ("bad scenario token " ^ tok)
    | Some i ->
      let k = String.sub tok 0 i and v = String.sub tok (i + 1) (String.length tok - i - 1) in
      (match k with
       | "W" -> sc := { !sc with w = int_of_string v }
       | "J" -> if v <> "-" then
           sc := { !sc with jobs = List.map (fun js -> match String.index_opt js ':' with
               | Some c -> (int_of_string (String.sub js 0 c), parse_ops (String.sub js (c + 1) (String.length js - c - 1)))
               | None -> failwith "bad job") (nonempty (split ';' v)) }
       | "C" -> if v <> "-" then sc := { !sc with cls = List.map parse_ops (split ';' v) }
       | "M" -> sc := { !sc with mops = parse_ops v }
       | "sp" -> sc := { !sc with sp = (v <> "0") }
       | "init" -> sc := { !sc with init = int_of_string v }
       | "st" | "seed" | "ch" | "dflt" -> ()
       | _ -> failwith ("bad scenario key " ^ k)))
    (nonempty (split ' ' s));
  !sc

let num s = int_of_string (String.sub s 1 (String.length s - 1))
(* operations without a model event (size(), thread(i)) or observed against the model state (idle(), has_idle()) are not
   part of the model's client programs; job-kind markers and the throw marker do not change a job's event sequence *)
let cop_of s = match s.[0] with
  | 'e' -> Some (CEnq (nat_of_int (num s))) | 'L' -> Some CLoopEmpty | 'T' -> Some CLoopTerm | 'X' -> Some CTerminate | 'D' -> Some CDone
  | 'S' | 'I' | 'H' | 'R' -> None
  | _ -> failwith ("bad cop " ^ s)
let jop_of s = match s.[0] with
  | 'e' -> Some (JEnq (nat_of_int (num s))) | 't' -> Some JTerm | 'w' -> Some (JWait (nat_of_int (num s)))
  | 'x' | 'F' | 'B' | 'c' -> None
  | _ -> failwith ("bad jop " ^ s)
let has_cont (sc : scen) = List.exists (fun (_, ops) -> List.exists (fun o -> o.[0] = 'c') ops) sc.jobs
let job_has_token (sc : scen) j = match List.assoc_opt j sc.jobs with
  | Some (o :: _) when o = "F" || o = "B" -> false | _ -> true

let config_of (sc : scen) : config =
  let tbl = Hashtbl.create 16 in
  List.iter (fun (j, ops) -> Hashtbl.replace tbl j (List.filter_map jop_of ops)) sc.jobs;
  { nworkers = nat_of_int sc.w;
    jobprog = (fun j -> match Hashtbl.find_opt tbl (int_of_nat j) with Some l -> l | None -> []);
    clients = List.map (List.filter_map cop_of) sc.cls;
    mainops = List.filter_map cop_of sc.mops }

(* ---------------------------------------------------------------- object roles
   The harness names no private member of ThreadPool: in the raw trace the pool's mutex, condition variables and atomics carry
   ids in order of first use (schedule dependent); only the harness' own rendezvous mutex / cv are fixed (raw m0 / c0).  The
   roles are identified from the trace:
     pool mutex     = the mutex that is not m0
     cv "jobs"      = the cv notified right after the lock of an enqueue() (ENQ note, L, notify), else the cv a worker thread
                      (id 1..W) waits on, else the cv notified right after a store (terminate()/destructor);  cv "finished" = the other
     The atomics are NOT given roles here: which counter an access touches is resolved by the matcher against the pending model step of
     the thread (an access that is not the thread's next model step is an internal step and is skipped); no verdict about the property
     is ever derived from an atomic access of the trace -- counters are observed through the public API (done(), idle(), size()) only.
   Canonical names afterwards: m0 pool mutex, c0 jobs, c1 finished, m1 / c2 harness. *)
let normalise (sc : scen) (raw : string array) : string array =
  let n = Array.length raw in
  let parts = Array.map (split ':') raw in
  let tid_of i = match parts.(i) with t :: _ -> (try int_of_string t with _ -> -1) | [] -> -1 in
  let next_same = Array.make n (-1) and prev_same = Array.make n (-1) in
  let last = Hashtbl.create 8 in
  for i = 0 to n - 1 do
    let t = tid_of i in
    (match Hashtbl.find_opt last t with Some j -> prev_same.(i) <- j; next_same.(j) <- i | None -> ());
    Hashtbl.replace last t i
  done;


  let kind i = if i < 0 then [] else (match parts.(i) with _ :: r -> r | [] -> []) in
  let poolm = ref "" in
  Array.iter (function _ :: ("L" | "U") :: m :: _ when m <> "m0" && !poolm = "" -> poolm := m | _ -> ()) parts;
  (* condition variables *)
  let r3 = ref "" and r1 = ref "" and r2 = ref "" and r6 = ref "" and cvs = ref [] in
  for i = 0 to n - 1 do
    (match kind i with
     | ("N1" | "NA") :: c :: _ when c <> "c0" ->
       if not (List.mem c !cvs) then cvs := c :: !cvs;
       let p1 = prev_same.(i) in let p2 = if p1 >= 0 then prev_same.(p1) else -1 in
       (match kind p1, kind p2 with
        | "L" :: _, "US" :: "ENQ" :: _ -> if !r3 = "" then r3 := c
        | "AS" :: _, _ -> if !r6 = "" then r6 := c
        | _ -> ())
     | "WB" :: c :: _ when c <> "c0" ->
       if not (List.mem c !cvs) then cvs := c :: !cvs;
       let t = tid_of i in
       if t >= 1 && t <= sc.w then (if !r1 = "" then r1 := c) else (if !r2 = "" then r2 := c)
     | _ -> ())
  done;
  let other c = match List.filter (fun x -> x <> c) !cvs with [x] -> x | _ -> "" in
  let cj = if !r3 <> "" then !r3 else if !r1 <> "" then !r1 else if !r6 <> "" then !r6 else if !r2 <> "" then other !r2 else "" in
  let cf = if cj <> "" then other cj else !r2 in
  let ren_m m = if m = "m0" then "m1" else if m = !poolm then "m0" else "m?" ^ m in
  let ren_c c = if c = "c0" then "c2" else if c = cj then "c0" else if c = cf then "c1" else "c?" ^ c in
  Array.map (fun p -> String.concat ":" (match p with
      | t :: (("L" | "U" | "TL") as k) :: m :: r -> t :: k :: ren_m m :: r
      | t :: (("WB" | "WE") as k) :: c :: m :: r -> t :: k :: ren_c c :: ren_m m :: r
      | t :: (("N1" | "NA") as k) :: c :: r -> t :: k :: ren_c c :: r
      | p -> p)) parts

(* ---------------------------------------------------------------- events *)
exception Unparsable of string
let big = 100000
let nat_arg s = let v = try int_of_string s with _ -> raise (Unparsable s) in
  if v < 0 || v > big then raise (Unparsable s) else nat_of_int v
let cv_of = function "c0" -> CJ | "c1" -> CF | s -> raise (Unparsable s)
let av_of = function "a0" -> ABusy | "a1" -> AIdle | "a2" -> ADone | "a3" -> ATerm | s -> raise (Unparsable s)

(* tokens -> (token index, tid, action) list; U:m0 followed by the LER note of the same thread is one event.
   Harness-only observations (CD, IT, SZ, THR, yields of the init hook) have no counterpart in the LTS and are skipped here
   (the direct checker below examines them); idle()/has_idle() = a load of idle_ by a client, compared with the model's idle. *)
type action = Ev of ev | Atom of (av -> ev) | ObsIdle of int
let events_of (toks : string array) : (int * int * action) list =
  let n = Array.length toks in
  let out = ref [] in
  let i = ref 0 in
  while !i < n do
    let tok = toks.(!i) in
    let parts = split ':' tok in
    (match parts with
     | tid :: rest ->
       let t = (try int_of_string tid with _ -> raise (Unparsable tok)) in
       let next_is tags = !i + 1 < n && (match split ':' toks.(!i + 1) with
           | [tid2; "US"; tg; _; _] -> tid2 = tid && List.mem tg tags | _ -> false) in
       let e =
         (try match rest with
          (* the harness' own rendezvous mutex m1 / condition variable c2: in the LTS a rendezvous is the single event WD,
             enabled only when the awaited job body has ended *)
          | ["L"; "m1"] | ["U"; "m1"] | ["WB"; "c2"; "m1"] | ["WE"; "c2"; "m1"] | ["WE"; "c2"; "m1"; "spurious"] | ["NA"; "c2"] -> None
          | ["L"; "m0"] -> Some (Ev ELock)
          | ["U"; "m0"] ->
            if !i + 1 < n then
              (match split ':' toks.(!i + 1) with
               | [tid2; "US"; "LER"; a; _] when tid2 = tid -> incr i; Some (Ev (EUnlockR (nat_arg a)))
               | _ -> Some (Ev EUnlock))
            else Some (Ev EUnlock)
          | ["WB"; c; "m0"] -> Some (Ev (EWB (cv_of c)))
          | ["WE"; c; "m0"] -> Some (Ev (EWE (cv_of c, false)))
          | ["WE"; c; "m0"; "spurious"] -> Some (Ev (EWE (cv_of c, true)))
          | ["N1"; c; "-"] -> Some (Ev (EN1 (cv_of c, None)))
          | ["N1"; c; u] -> Some (Ev (EN1 (cv_of c, Some (nat_arg u))))
          | ["NA"; c] -> Some (Ev (ENA (cv_of c)))
          (* atomics: WHICH counter an access touches is not taken from the (heuristic) role inference but resolved by the matcher
             against the thread's pending model step *)
          | ["AL"; _; v] when next_is ["IDLE"; "HAS"] -> incr i; Some (ObsIdle (int_of_string v))
          | ["AL"; _; v] -> let v = nat_arg v in Some (Atom (fun a -> EAL (a, v)))
          | ["AS"; _; v] -> let v = nat_arg v in Some (Atom (fun a -> EAS (a, v)))
          | ["AR"; _; o; nn] -> let o = nat_arg o and nn = nat_arg nn in Some (Atom (fun a -> EAR (a, o, nn)))
          | ["SP"; u] -> Some (Ev (ESpawn (nat_arg u)))
          | ["J"; u] -> Some (Ev (EJoin (nat_arg u)))
          | ["END"] -> Some (Ev EEnd)
          | ["US"; "JS"; a; _] -> Some (Ev (EUser (UJS, nat_arg a)))
          | ["US"; "JE"; a; _] -> Some (Ev (EUser (UJE, nat_arg a)))
          | ["US"; "ENQ"; a; _] -> Some (Ev (EUser (UENQ, nat_arg a)))
          | ["US"; "LE"; a; _] -> Some (Ev (EUser (ULE, nat_arg a)))
          | ["US"; "LT"; a; _] -> Some (Ev (EUser (ULT, nat_arg a)))
          | ["US"; "TERM"; a; _] -> Some (Ev (EUser (UTERM, nat_arg a)))
          | ["US"; "WD"; a; _] -> Some (Ev (EUser (UWD, nat_arg a)))
          | ["US"; ("CD" | "IT" | "SZ" | "THR" | "DONE" | "LDONE" | "DTOR"); _; _] | ["Y"] -> None
          | _ -> raise (Unparsable tok)
          with Unparsable _ ->
            (* an atomic whose role could not be identified (or with an out-of-range value): internal step, skipped *)
            (match rest with ("AL" | "AS" | "AR" | "AC") :: _ -> None | _ -> raise (Unparsable tok))) in
       (match e with Some e -> out := (!i, t, e) :: !out | None -> ())
     | [] -> ());
    incr i
  done;
  List.rev !out

(* ---------------------------------------------------------------- direct property checker (trace only) *)
type dstate = {
  mutable pend : (int * int) list;       (* thread -> job id of its last ENQ note *)
  mutable enq : int list;                (* jobs whose enqueue() has taken the lock and pushed *)
  mutable js : int list; mutable je : int list;
  mutable termd : bool; mutable dtor : bool; mutable lers : int; mutable bad : string list;
  mutable lastcall : (int * string) list; (* thread -> LE | LT *)
  mutable jsby : (int * int) list;       (* job -> thread that ran it *)
  mutable cd : int list;                 (* jobs whose closure token has been destroyed *)
  mutable holder : int;                  (* thread holding mutex_ (-1 = free), from the L/U/WB/WE events *)
  mutable its : (int * int) list         (* worker thread -> argument of its InitThread hook call *)
}
let direct_check (sc : scen) (toks : string array) : dstate =
  let d = { pend = []; enq = []; js = []; je = []; termd = false; dtor = false; lers = 0; bad = []; lastcall = [];
            jsby = []; cd = []; holder = -1; its = [] } in
  let locked_before = Hashtbl.create 8 in
  let cs_start = Hashtbl.create 8 and last_cs = Hashtbl.create 8 and term_pending = Hashtbl.create 4 and term_done_idx = ref (-1) in
  let ler_je = Hashtbl.create 8 in
  let enqcount = Hashtbl.create 16 in
  Array.iter (fun tok -> match split ':' tok with
      | [_; "US"; "ENQ"; a; _] -> Hashtbl.replace enqcount a (1 + (try Hashtbl.find enqcount a with Not_found -> 0))
      | _ -> ()) toks;
  let flag s = if List.length d.bad < 4 then d.bad <- d.bad @ [s] in
  Array.iteri (fun idx tok ->
    match split ':' tok with
    | [tid; "US"; "ENQ"; a; _] -> let t = int_of_string tid in d.pend <- (t, int_of_string a) :: List.remove_assoc t d.pend
    | [tid; "L"; "m0"] ->
      (* enqueue(): the lock after the ENQ note; jobs_.emplace_back follows atomically (no scheduling point) *)
      let t = int_of_string tid in
      d.holder <- t; Hashtbl.replace locked_before t true; Hashtbl.replace cs_start t idx;
      (match List.assoc_opt t d.pend with
       | Some j -> d.enq <- j :: d.enq; d.pend <- List.remove_assoc t d.pend
       | None -> ())
    | [tid; "U"; "m0"] | [tid; "WB"; _; "m0"] ->
      let t = int_of_string tid in
      d.holder <- -1;
      (match Hashtbl.find_opt cs_start t with Some st -> Hashtbl.replace last_cs t (st, idx) | None -> ());
      (* terminate() and the destructor set terminate_ inside their (only / first) critical section after the TERM / DTOR note *)
      if Hashtbl.mem term_pending t then begin
        Hashtbl.remove term_pending t;
        if !term_done_idx < 0 then term_done_idx := idx
      end
    | tid :: "WE" :: _ :: "m0" :: _ -> let t = int_of_string tid in d.holder <- t; Hashtbl.replace cs_start t idx
    | [tid; "US"; ("TERM" | "DTOR"); _; _] ->
      Hashtbl.replace term_pending (int_of_string tid) true;
      (match split ':' tok with [_; _; "TERM"; _; _] -> d.termd <- true | _ -> d.dtor <- true)
    | [_; "US"; "WD"; a; _] ->
      if not (List.mem (int_of_string a) d.je) then flag (Printf.sprintf "rendezvous on job %s returned before that job's body ended (token %d)" a idx)
    | [tid; "US"; "CD"; a; _] ->
      let t = int_of_string tid and j = int_of_string a in
      if List.mem j d.cd then flag (Printf.sprintf "closure of job %d destroyed twice (token %d)" j idx);
      d.cd <- j :: d.cd;
      (match List.assoc_opt j d.jsby with
       | Some w ->
         if w <> t then flag (Printf.sprintf "closure of job %d destroyed by thread %d, not by the worker %d that ran it (token %d)" j t w idx);
         if not (List.mem j d.je) then flag (Printf.sprintf "closure of job %d destroyed before its body ended (token %d)" j idx)
       | None -> ());
      if d.holder = t then flag (Printf.sprintf "closure of job %d destroyed while thread %d holds the pool mutex (token %d)" j t idx)
    | [tid; "US"; "IT"; a; _] ->
      let t = int_of_string tid and pp = int_of_string a in
      if List.mem_assoc t d.its then flag (Printf.sprintf "InitThread hook called twice in worker thread %d" t);
      if pp <> t - 1 then flag (Printf.sprintf "InitThread hook of worker thread %d got index %d" t pp);
      if Hashtbl.mem locked_before t then flag (Printf.sprintf "InitThread hook of worker thread %d ran after the worker loop started" t);
      d.its <- (t, pp) :: d.its
    | [_; "US"; "SZ"; a; _] -> if int_of_string a <> sc.w then flag (Printf.sprintf "size() = %s, pool has %d threads" a sc.w)
    | [_; "US"; "THR"; a; _] -> if a <> "1" then flag "thread(i) does not return the i-th worker thread"
    | [_; "US"; "IDLE"; a; _] -> if int_of_string a > sc.w then flag (Printf.sprintf "idle() = %s, pool has %d threads" a sc.w)
    | [_; "US"; "DONE"; a; _] ->
      if int_of_string a > List.length d.je then flag (Printf.sprintf "done() = %s but only %d job bodies have ended (token %d)" a (List.length d.je) idx)
    | [tid; "US"; "LDONE"; a; _] ->
      (* done() through the public API right after loop_until_empty returned: at least the jobs ended at the return, at most those ended now *)
      let v = int_of_string a and lo = (try Hashtbl.find ler_je (int_of_string tid) with Not_found -> 0) and hi = List.length d.je in
      if v < lo || v > hi then
        flag (Printf.sprintf "done() = %d after loop_until_empty returned (token %d): %d jobs had ended at the return, %d by now" v idx lo hi)
    | [_; "US"; "JS"; a; _] ->
      let j = int_of_string a in
      if not (List.mem j d.enq) then flag (Printf.sprintf "job %d started but never enqueued (token %d)" j idx);
      if List.mem j d.js && (try Hashtbl.find enqcount a with Not_found -> 0) <= 1 then
        flag (Printf.sprintf "job %d executed more than once (token %d)" j idx);
      (let w = (match split ':' tok with tid :: _ -> int_of_string tid | [] -> -1) in
       match Hashtbl.find_opt last_cs w with
       | Some (st, _) when !term_done_idx >= 0 && !term_done_idx < st ->
         (* terminate() / the destructor return once the RUNNING jobs finish: a worker that took the pool mutex only after
            terminate_ had been set under that mutex must not start another queued job *)
         flag (Printf.sprintf "job %d was popped and started (token %d) by a worker that acquired the mutex after terminate()/the destructor had set terminate_: the backlog is drained instead of dropped" j idx)
       | _ -> ());
      d.js <- j :: d.js; d.jsby <- (j, (match split ':' tok with tid :: _ -> int_of_string tid | [] -> -1)) :: d.jsby
    | [_; "US"; "JE"; a; _] -> d.je <- int_of_string a :: d.je
    | [tid; "US"; "LE"; _; _] -> let t = int_of_string tid in d.lastcall <- (t, "LE") :: List.remove_assoc t d.lastcall
    | [tid; "US"; "LT"; _; _] -> let t = int_of_string tid in d.lastcall <- (t, "LT") :: List.remove_assoc t d.lastcall
    | [tid; "US"; "LER"; a; _] ->
      Hashtbl.replace ler_je (int_of_string tid) (List.length d.je);
      d.lers <- d.lers + 1;
      let n = int_of_string a and nje = List.length d.je in
      List.iter (fun j -> if not (List.mem j d.je) then
                    flag (Printf.sprintf "loop_until_empty returned at token %d but enqueued job %d has not finished" idx j)) d.enq;
      if n <> nje then flag (Printf.sprintf "loop_until_empty returned at token %d: caller sees %d job effects, %d jobs ended" idx n nje);

      if nje <> List.length d.enq then flag (Printf.sprintf "loop_until_empty returned at token %d: %d ended, %d enqueued" idx nje (List.length d.enq));
      if not d.termd then
        List.iter (fun j -> if job_has_token sc j && not (List.mem j d.cd) then
                      flag (Printf.sprintf "loop_until_empty returned at token %d but the closure of finished job %d has not been destroyed" idx j)) d.je
    | _ -> ()) toks;
  d

(* rest-state analysis from what the harness printed (no model involved) *)
let impl_rest (toks : string array) (d : dstate) (state : (string * int) list) (threads : (int * int * int * int) list) : string =
  let g k = try List.assoc k state with Not_found -> -1 in
  let jobs = g "jobs" and busy = g "busy" and term = g "term" in
  let last_of t = let r = ref [] in
    Array.iter (fun tok -> match split ':' tok with tid :: rest when int_of_string tid = t -> r := rest :: !r | _ -> ()) toks; !r in
  let res = ref [] in
  List.iter (fun (id, fin, kind, _) ->
    if fin = 0 then begin
      let evs = last_of id in
      match kind, evs with
      | 2, ("WB" :: "c1" :: _) :: _ ->
        (match List.assoc_opt id d.lastcall with
         | Some "LE" -> if jobs = 0 && busy = 0 then res := Printf.sprintf "LE@%d" id :: !res
         | Some "LT" -> if term = 1 && busy = 0 then res := Printf.sprintf "LT@%d" id :: !res
         | _ -> res := Printf.sprintf "UNKNOWNWAIT@%d" id :: !res)
      | 2, ("WB" :: "c0" :: _) :: _ -> if term = 1 || jobs > 0 then res := Printf.sprintf "IDLE@%d" id :: !res
      | 2, ("WB" :: "c2" :: _) :: _ -> ()      (* a job body blocked in a rendezvous: the job graph's business, not the pool's *)
      | 3, _ ->
        if id = 0 && d.dtor then res := Printf.sprintf "DTOR@%d" id :: !res
      | 1, _ -> res := Printf.sprintf "LOCK@%d" id :: !res
      | _, _ -> res := Printf.sprintf "RUNNABLE@%d" id :: !res
    end) threads;
  if !res = [] then "legit" else "stranded:" ^ String.concat "," (List.sort compare !res)

let model_rest (s : state) : string =
  let n = List.length s.thr in
  let res = ref [] in
  for t = 0 to n - 1 do
    let ts = get s.thr (nat_of_int t) in
    if stranded s (nat_of_int t) then begin
      let k = if waits_le ts then "LE" else if waits_lt ts then "LT" else if waits_job ts then "IDLE" else "DTOR" in
      res := Printf.sprintf "%s@%d" k t :: !res
    end
  done;
  if !res = [] then "legit" else "stranded:" ^ String.concat "," (List.sort compare !res)

(* ---------------------------------------------------------------- main *)
let find_sub (s : string) (sub : string) : int option =
  let n = String.length s and m = String.length sub in
  let rec go i = if i + m > n then None else if String.sub s i m = sub then Some i else go (i + 1) in go 0

let field (line : string) (key : string) (next : string) : string =
  match find_sub line (key ^ " ") with
  | None -> ""
  | Some i ->
    let st = i + String.length key + 1 in
    let rest = String.sub line st (String.length line - st) in
    (match find_sub rest (" " ^ next ^ " ") with Some j -> String.sub rest 0 j | None -> rest)

let () =
  let fx = not (Array.length Sys.argv > 2 && Sys.argv.(2) = "shipped") in
  let ic = open_in Sys.argv.(1) in
  (try
     while true do
       let line = input_line ic in
       match find_sub line " ||| " with
       | None -> print_endline "BADLINE"
       | Some i ->
         let scs = String.sub line 0 i and impl = String.sub line (i + 5) (String.length line - i - 5) in
         (try
            let sc = parse_scen scs in
            let cfg = config_of sc in
            let is_ok = String.length impl >= 3 && String.sub impl 0 3 = "OK " in
            let is_dl = String.length impl >= 9 && String.sub impl 0 9 = "DEADLOCK " in
            if not (is_ok || is_dl) then print_endline "IMPL-CRASH"
            else begin
              let trace = if is_ok then String.sub impl 3 (String.length impl - 3)
                else (match find_sub impl " TRACE " with Some j -> String.sub impl (j + 7) (String.length impl - j - 7) | None -> "") in
              let toks = normalise sc (Array.of_list (nonempty (split ' ' trace))) in
              let b = Buffer.create 256 in
              (* (1) model replay *)
              let st = ref (init cfg) in
              let verdict = ref "accept" in
              let nev = ref 0 and nspur = ref 0 and ntau_ins = ref 0 and ntau_skip = ref 0 and nobs_diff = ref 0 and nxnot = ref 0 in
              if has_cont sc then verdict := "skipped"     (* enqueue from a closure destructor: outside the LTS's job language *)
              else
              (try
                 let evs = events_of toks in
                 (* WEAK simulation: loads / stores / read-modify-writes of the bookkeeping atomics are internal (tau) steps.
                    An observed atomic event is applied to the model if it is exactly the thread's next model step (same value),
                    otherwise it is skipped; a visible event (lock, unlock, wait-begin/-end, notify, spawn/join/end, user events)
                    that the model does not accept yet is retried after letting the model perform the thread's own pending atomic
                    steps (values read from the model state).  The decisions (queue empty? busy == 0? terminate?) are thus taken
                    by the model and validated by the next visible event of the real trace. *)
                 let is_tau = function EAL _ | EAS _ | EAR _ -> true | _ -> false in
                 let rec with_taus t e k =
                   match lstep_gen cfg fx sc.sp !st (nat_of_int t, e) with
                   | Some s' -> Some s'
                   | None ->
                     if k = 0 then None else
                       let ts = get (!st).thr (nat_of_int t) in
                       let taus = List.filter is_tau (cands cfg (!st).shr ts) in
                       let rec first = function
                         | [] -> None
                         | c :: r -> (match lstep_gen cfg fx sc.sp !st (nat_of_int t, c) with Some s' -> Some s' | None -> first r) in
                       (match first taus with
                        | Some s' -> st := s'; incr ntau_ins; with_taus t e (k - 1)
                        | None -> None) in
                 (try List.iter (fun (idx, t, a) ->
                      match a with
                      | ObsIdle v -> if v <> int_of_nat (!st).shr.idle then incr nobs_diff
                      | Atom f ->
                        let rec try_roles = function
                          | [] -> None
                          | a :: r -> (match lstep_gen cfg fx sc.sp !st (nat_of_int t, f a) with Some s' -> Some s' | None -> try_roles r) in
                        (match try_roles [ABusy; AIdle; ADone; ATerm] with
                         | Some s' -> st := s'; incr nev
                         | None -> incr ntau_skip)
                      | Ev e ->
                        let saved = !st in
                        (match with_taus t e 8 with
                         | Some s' -> st := s'; incr nev; (match e with EWE (_, true) -> incr nspur | _ -> ())
                         | None ->
                           st := saved;
                           (* an additional notification (Pool.xstep): enabled for every live, un-blocked thread, it only moves
                              sleepers into the woken set; the reachability relation of the theorems is closed under it *)
                           (match (match e with EN1 _ | ENA _ -> xstep !st (nat_of_int t, e) | _ -> None) with
                            | Some s' -> st := s'; incr nev; incr nxnot
                            | None -> verdict := Printf.sprintf "reject@%d:%s" idx toks.(idx); raise Exit))) evs
                  with Exit -> ())
               with Unparsable tok -> verdict := "unparsable:" ^ tok);
              Buffer.add_string b (Printf.sprintf "%s model=%s" (if is_ok then "OK" else "DEADLOCK") !verdict);
              (* (3) direct checker *)
              let d = direct_check sc toks in
              Buffer.add_string b (Printf.sprintf " prop=%s" (if d.bad = [] then "ok" else String.concat ";" (List.map (String.map (fun c -> if c = ' ' then '_' else c)) d.bad)));
              if is_ok then begin
                let fb = ref [] in
                if List.length d.js <> List.length d.je then fb := "unfinished-job-at-exit" :: !fb;
                if sc.init >= 0 && List.length d.its <> sc.w then fb := Printf.sprintf "init-hook-calls:%d-of-%d" (List.length d.its) sc.w :: !fb;
                List.iter (fun j -> if job_has_token sc j && not (List.mem j d.cd) then fb := Printf.sprintf "closure-of-job-%d-never-destroyed" j :: !fb) d.enq;
                Buffer.add_string b (Printf.sprintf " fin=%s" (if !fb = [] then "ok" else String.concat ";" (List.rev !fb)));
                let s = !st in
                if !verdict = "accept" then
                  Buffer.add_string b (Printf.sprintf " final=%s" (match get s.thr O with TM M8 -> "main-done" | _ -> "main-not-done"))
              end else begin
                (* (2) rest state *)
                let why = field impl "DEADLOCK" "STATE" in
                (* component state of the real pool at the rest state, derived from the USER events of its own trace only (no private
                   member, no role-inferred atomic): at a rest state every popped job has started, so queued = enqueued - started,
                   running = started - ended; terminate_ is set iff a terminate() call or the destructor has been entered *)
                let state = [ ("jobs", List.length d.enq - List.length d.js); ("busy", List.length d.js - List.length d.je);
                              ("term", if d.termd || d.dtor then 1 else 0) ] in
                let threads = List.filter_map (fun s -> match split ':' s with
                    | [a; bb; c; dd] -> Some (int_of_string a, int_of_string bb, int_of_string c, int_of_string dd) | _ -> None)
                    (nonempty (split ',' (field impl "THREADS" "CHOICES"))) in
                Buffer.add_string b (Printf.sprintf " %s rest_impl=%s implstate=%s" why (impl_rest toks d state threads)
                                       (String.concat "," (List.map (fun (k, v) -> Printf.sprintf "%s:%d" k v) state)));
                if !verdict = "accept" then begin
                  let s = !st in
                  let ms = [ ("jobs", List.length s.shr.queue); ("busy", int_of_nat s.shr.busy); ("term", if s.shr.term then 1 else 0) ] in
                  let same = List.for_all (fun (k, v) -> List.assoc_opt k state = Some v) ms in
                  Buffer.add_string b (Printf.sprintf " state_match=%d quiescent_model=%d rest_model=%s" (if same then 1 else 0)
                                         (if quiescentb cfg fx sc.sp s then 1 else 0) (model_rest s))
                end
              end;
              Buffer.add_string b (Printf.sprintf " ev=%d spur=%d jobs=%d lers=%d term=%d tauins=%d tauskip=%d obsdiff=%d xnotify=%d" !nev !nspur (List.length d.js) d.lers
                                     (if d.termd then 1 else 0) !ntau_ins !ntau_skip !nobs_diff !nxnot);
              print_endline (Buffer.contents b)
            end
          with Failure m -> print_endline ("DRIVER-ERROR " ^ m) | Not_found -> print_endline "DRIVER-ERROR not_found")
     done
   with End_of_file -> ());
  close_in ic
