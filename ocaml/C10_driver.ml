(* C10 driver.  Input (argv[1]): one line per case, "<scenario> ||| <line printed by harness/C10/pool_harness>".
   For each case: (1) folds the extracted Coq transition function [lstep_gen] over the event trace of the REAL
   thread pool: every event must be accepted (the observed atomic values, notify_one targets and user-event
   payloads are part of the events, so they must equal the model's); (2) for a DEADLOCK line compares the
   component state printed by the harness with the model's and classifies the rest state with the Coq
   definitions [quiescentb] / [stranded]; (3) evaluates a direct checker of the property on the trace alone
   (independent of the model).  Prints ONE line per case.
   argv[2] = "shipped" replays against the model of the shipped code (notify_one) instead of the repaired one. *)
open C10_model

let rec nat_of_int n = if n <= 0 then O else S (nat_of_int (n - 1))
let rec int_of_nat = function O -> 0 | S n -> 1 + int_of_nat n
let split c s = String.split_on_char c s
let nonempty l = List.filter (fun s -> s <> "") l

(* ---------------------------------------------------------------- scenario *)
type scen = { w : int; jobs : (int * string list) list; cls : string list list; mops : string list; sp : bool }

let parse_ops s = if s = "-" || s = "" then [] else nonempty (split '.' s)
let parse_scen (s : string) : scen =
  let sc = ref { w = 1; jobs = []; cls = []; mops = []; sp = false } in
  List.iter (fun tok ->
    match String.index_opt tok '=' with
    | None -> failwith ("bad scenario token " ^ tok)
    | Some i ->
      let k = String.sub tok 0 i and v = String.sub tok (i + 1) (String.length tok - i - 1) in
      (match k with
       | "W" -> sc := { !sc with w = int_of_string v }
       | "J" -> if v <> "-" then
           sc := { !sc with jobs = List.map (fun js -> match String.index_opt js ':' with
               | Some c -> (int_of_string (String.sub js 0 c), parse_ops (String.sub js (c + 1) (String.length js - c - 1)))
               | None -> failwith "bad job") (nonempty (split ';' v)) }
       | "C" -> if v <> "-" then sc := { !sc with cls = List.map parse_ops (split ';' v) }
       | "M" -> sc := { !sc with mops = parse_ops v }
       | "sp" -> sc := { !sc with sp = (v <> "0") }
       | "st" | "seed" | "ch" -> ()
       | _ -> failwith ("bad scenario key " ^ k)))
    (nonempty (split ' ' s));
  !sc

let num s = int_of_string (String.sub s 1 (String.length s - 1))
let cop_of s = match s.[0] with
  | 'e' -> CEnq (nat_of_int (num s)) | 'L' -> CLoopEmpty | 'T' -> CLoopTerm | 'X' -> CTerminate | 'D' -> CDone
  | _ -> failwith ("bad cop " ^ s)
let jop_of s = match s.[0] with 'e' -> JEnq (nat_of_int (num s)) | 't' -> JTerm | _ -> failwith ("bad jop " ^ s)

let config_of (sc : scen) : config =
  let tbl = Hashtbl.create 16 in
  List.iter (fun (j, ops) -> Hashtbl.replace tbl j (List.map jop_of ops)) sc.jobs;
  { nworkers = nat_of_int sc.w;
    jobprog = (fun j -> match Hashtbl.find_opt tbl (int_of_nat j) with Some l -> l | None -> []);
    clients = List.map (List.map cop_of) sc.cls;
    mainops = List.map cop_of sc.mops }

(* ---------------------------------------------------------------- events *)
exception Unparsable of string
let big = 100000
let nat_arg s = let v = try int_of_string s with _ -> raise (Unparsable s) in
  if v < 0 || v > big then raise (Unparsable s) else nat_of_int v
let cv_of = function "c0" -> CJ | "c1" -> CF | s -> raise (Unparsable s)
let av_of = function "a0" -> ABusy | "a1" -> AIdle | "a2" -> ADone | "a3" -> ATerm | s -> raise (Unparsable s)

(* tokens -> (token index, tid, event) list; U:m0 followed by the LER note of the same thread is one event *)
let events_of (toks : string array) : (int * int * ev) list =
  let n = Array.length toks in
  let out = ref [] in
  let i = ref 0 in
  while !i < n do
    let tok = toks.(!i) in
    let parts = split ':' tok in
    (match parts with
     | tid :: rest ->
       let t = (try int_of_string tid with _ -> raise (Unparsable tok)) in
       let e =
         (try match rest with
          | ["L"; "m0"] -> Some ELock
          | ["U"; "m0"] ->
            if !i + 1 < n then
              (match split ':' toks.(!i + 1) with
               | [tid2; "US"; "LER"; a; _] when tid2 = tid -> incr i; Some (EUnlockR (nat_arg a))
               | _ -> Some EUnlock)
            else Some EUnlock
          | ["WB"; c; "m0"] -> Some (EWB (cv_of c))
          | ["WE"; c; "m0"] -> Some (EWE (cv_of c, false))
          | ["WE"; c; "m0"; "spurious"] -> Some (EWE (cv_of c, true))
          | ["N1"; c; "-"] -> Some (EN1 (cv_of c, None))
          | ["N1"; c; u] -> Some (EN1 (cv_of c, Some (nat_arg u)))
          | ["NA"; c] -> Some (ENA (cv_of c))
          | ["AL"; a; v] -> Some (EAL (av_of a, nat_arg v))
          | ["AS"; a; v] -> Some (EAS (av_of a, nat_arg v))
          | ["AR"; a; o; nn] -> Some (EAR (av_of a, nat_arg o, nat_arg nn))
          | ["SP"; u] -> Some (ESpawn (nat_arg u))
          | ["J"; u] -> Some (EJoin (nat_arg u))
          | ["END"] -> Some EEnd
          | ["US"; "JS"; a; _] -> Some (EUser (UJS, nat_arg a))
          | ["US"; "JE"; a; _] -> Some (EUser (UJE, nat_arg a))
          | ["US"; "ENQ"; a; _] -> Some (EUser (UENQ, nat_arg a))
          | ["US"; "LE"; a; _] -> Some (EUser (ULE, nat_arg a))
          | ["US"; "LT"; a; _] -> Some (EUser (ULT, nat_arg a))
          | ["US"; "TERM"; a; _] -> Some (EUser (UTERM, nat_arg a))
          | _ -> None
          with Unparsable _ -> None) in
       (match e with Some e -> out := (!i, t, e) :: !out | None -> raise (Unparsable tok))
     | [] -> ());
    incr i
  done;
  List.rev !out

(* ---------------------------------------------------------------- direct property checker (trace only) *)
type dstate = {
  mutable pend : (int * int) list;       (* thread -> job id of its last ENQ note *)
  mutable enq : int list;                (* jobs whose enqueue() has taken the lock and pushed *)
  mutable js : int list; mutable je : int list;
  mutable donev : int; mutable termd : bool; mutable lers : int; mutable bad : string list;
  mutable lastcall : (int * string) list (* thread -> LE | LT *)
}
let direct_check (toks : string array) : dstate =
  let d = { pend = []; enq = []; js = []; je = []; donev = 0; termd = false; lers = 0; bad = []; lastcall = [] } in
  let enqcount = Hashtbl.create 16 in
  Array.iter (fun tok -> match split ':' tok with
      | [_; "US"; "ENQ"; a; _] -> Hashtbl.replace enqcount a (1 + (try Hashtbl.find enqcount a with Not_found -> 0))
      | _ -> ()) toks;
  let flag s = if List.length d.bad < 4 then d.bad <- d.bad @ [s] in
  Array.iteri (fun idx tok ->
    match split ':' tok with
    | [tid; "US"; "ENQ"; a; _] -> let t = int_of_string tid in d.pend <- (t, int_of_string a) :: List.remove_assoc t d.pend
    | [tid; "L"; "m0"] ->
      (* enqueue(): the lock after the ENQ note; jobs_.emplace_back follows atomically (no scheduling point) *)
      let t = int_of_string tid in
      (match List.assoc_opt t d.pend with
       | Some j -> d.enq <- j :: d.enq; d.pend <- List.remove_assoc t d.pend
       | None -> ())
    | [_; "US"; "JS"; a; _] ->
      let j = int_of_string a in
      if not (List.mem j d.enq) then flag (Printf.sprintf "job %d started but never enqueued (token %d)" j idx);
      if List.mem j d.js && (try Hashtbl.find enqcount a with Not_found -> 0) <= 1 then
        flag (Printf.sprintf "job %d executed more than once (token %d)" j idx);
      d.js <- j :: d.js
    | [_; "US"; "JE"; a; _] -> d.je <- int_of_string a :: d.je
    | [_; "AR"; "a2"; _; nn] -> d.donev <- int_of_string nn
    | [_; "US"; "TERM"; _; _] -> d.termd <- true
    | [tid; "US"; "LE"; _; _] -> let t = int_of_string tid in d.lastcall <- (t, "LE") :: List.remove_assoc t d.lastcall
    | [tid; "US"; "LT"; _; _] -> let t = int_of_string tid in d.lastcall <- (t, "LT") :: List.remove_assoc t d.lastcall
    | [_; "US"; "LER"; a; _] ->
      d.lers <- d.lers + 1;
      let n = int_of_string a and nje = List.length d.je in
      List.iter (fun j -> if not (List.mem j d.je) then
                    flag (Printf.sprintf "loop_until_empty returned at token %d but enqueued job %d has not finished" idx j)) d.enq;
      if n <> nje then flag (Printf.sprintf "loop_until_empty returned at token %d: caller sees %d job effects, %d jobs ended" idx n nje);
      if d.donev <> nje then flag (Printf.sprintf "loop_until_empty returned at token %d: done()=%d but %d jobs ended" idx d.donev nje);
      if nje <> List.length d.enq then flag (Printf.sprintf "loop_until_empty returned at token %d: %d ended, %d enqueued" idx nje (List.length d.enq))
    | _ -> ()) toks;
  d

(* rest-state analysis from what the harness printed (no model involved) *)
let impl_rest (toks : string array) (d : dstate) (state : (string * int) list) (threads : (int * int * int * int) list) : string =
  let g k = try List.assoc k state with Not_found -> -1 in
  let jobs = g "jobs" and busy = g "busy" and term = g "term" in
  let last_of t = let r = ref [] in
    Array.iter (fun tok -> match split ':' tok with tid :: rest when int_of_string tid = t -> r := rest :: !r | _ -> ()) toks; !r in
  let res = ref [] in
  List.iter (fun (id, fin, kind, _) ->
    if fin = 0 then begin
      let evs = last_of id in
      match kind, evs with
      | 2, ("WB" :: "c1" :: _) :: _ ->
        (match List.assoc_opt id d.lastcall with
         | Some "LE" -> if jobs = 0 && busy = 0 then res := Printf.sprintf "LE@%d" id :: !res
         | Some "LT" -> if term = 1 && busy = 0 then res := Printf.sprintf "LT@%d" id :: !res
         | _ -> res := Printf.sprintf "UNKNOWNWAIT@%d" id :: !res)
      | 2, ("WB" :: "c0" :: _) :: _ -> if term = 1 || jobs > 0 then res := Printf.sprintf "IDLE@%d" id :: !res
      | 3, _ ->
        let rec strip = function ("J" :: _) :: r -> strip r | l -> l in
        (match strip evs with
         | ["U"; "m0"] :: ["NA"; "c0"] :: ["AS"; "a3"; "1"] :: _ -> res := Printf.sprintf "DTOR@%d" id :: !res
         | _ -> ())
      | 1, _ -> res := Printf.sprintf "LOCK@%d" id :: !res
      | _, _ -> res := Printf.sprintf "RUNNABLE@%d" id :: !res
    end) threads;
  if !res = [] then "legit" else "stranded:" ^ String.concat "," (List.sort compare !res)

let model_rest (s : state) : string =
  let n = List.length s.thr in
  let res = ref [] in
  for t = 0 to n - 1 do
    let ts = get s.thr (nat_of_int t) in
    if stranded s (nat_of_int t) then begin
      let k = if waits_le ts then "LE" else if waits_lt ts then "LT" else if waits_job ts then "IDLE" else "DTOR" in
      res := Printf.sprintf "%s@%d" k t :: !res
    end
  done;
  if !res = [] then "legit" else "stranded:" ^ String.concat "," (List.sort compare !res)

(* ---------------------------------------------------------------- main *)
let find_sub (s : string) (sub : string) : int option =
  let n = String.length s and m = String.length sub in
  let rec go i = if i + m > n then None else if String.sub s i m = sub then Some i else go (i + 1) in go 0

let field (line : string) (key : string) (next : string) : string =
  match find_sub line (key ^ " ") with
  | None -> ""
  | Some i ->
    let st = i + String.length key + 1 in
    let rest = String.sub line st (String.length line - st) in
    (match find_sub rest (" " ^ next ^ " ") with Some j -> String.sub rest 0 j | None -> rest)

let () =
  let fx = not (Array.length Sys.argv > 2 && Sys.argv.(2) = "shipped") in
  let ic = open_in Sys.argv.(1) in
  (try
     while true do
       let line = input_line ic in
       match find_sub line " ||| " with
       | None -> print_endline "BADLINE"
       | Some i ->
         let scs = String.sub line 0 i and impl = String.sub line (i + 5) (String.length line - i - 5) in
         (try
            let sc = parse_scen scs in
            let cfg = config_of sc in
            let is_ok = String.length impl >= 3 && String.sub impl 0 3 = "OK " in
            let is_dl = String.length impl >= 9 && String.sub impl 0 9 = "DEADLOCK " in
            if not (is_ok || is_dl) then print_endline "IMPL-CRASH"
            else begin
              let trace = if is_ok then String.sub impl 3 (String.length impl - 3)
                else (match find_sub impl " TRACE " with Some j -> String.sub impl (j + 7) (String.length impl - j - 7) | None -> "") in
              let toks = Array.of_list (nonempty (split ' ' trace)) in
              let b = Buffer.create 256 in
              (* (1) model replay *)
              let st = ref (init cfg) in
              let verdict = ref "accept" in
              let nev = ref 0 and nspur = ref 0 in
              (try
                 let evs = events_of toks in
                 (try List.iter (fun (idx, t, e) ->
                      match lstep_gen cfg fx sc.sp !st (nat_of_int t, e) with
                      | Some s' -> st := s'; incr nev; (match e with EWE (_, true) -> incr nspur | _ -> ())
                      | None -> verdict := Printf.sprintf "reject@%d:%s" idx toks.(idx); raise Exit) evs
                  with Exit -> ())
               with Unparsable tok -> verdict := "unparsable:" ^ tok);
              Buffer.add_string b (Printf.sprintf "%s model=%s" (if is_ok then "OK" else "DEADLOCK") !verdict);
              (* (3) direct checker *)
              let d = direct_check toks in
              Buffer.add_string b (Printf.sprintf " prop=%s" (if d.bad = [] then "ok" else String.concat ";" (List.map (String.map (fun c -> if c = ' ' then '_' else c)) d.bad)));
              if is_ok then begin
                if List.length d.js <> List.length d.je then Buffer.add_string b " unfinished-job-at-exit";
                let s = !st in
                if !verdict = "accept" then
                  Buffer.add_string b (Printf.sprintf " final=%s" (match get s.thr O with TM M8 -> "main-done" | _ -> "main-not-done"))
              end else begin
                (* (2) rest state *)
                let why = field impl "DEADLOCK" "STATE" in
                let state = List.filter_map (fun kv -> match split '=' kv with [k; v] -> (try Some (k, int_of_string v) with _ -> None) | _ -> None)
                    (nonempty (split ' ' (field impl "STATE" "THREADS"))) in
                let threads = List.filter_map (fun s -> match split ':' s with
                    | [a; bb; c; dd] -> Some (int_of_string a, int_of_string bb, int_of_string c, int_of_string dd) | _ -> None)
                    (nonempty (split ',' (field impl "THREADS" "CHOICES"))) in
                Buffer.add_string b (Printf.sprintf " %s rest_impl=%s" why (impl_rest toks d state threads));
                if !verdict = "accept" then begin
                  let s = !st in
                  let ms = [ ("jobs", List.length s.shr.queue); ("busy", int_of_nat s.shr.busy); ("idle", int_of_nat s.shr.idle);
                             ("done", int_of_nat s.shr.done0); ("term", if s.shr.term then 1 else 0) ] in
                  let same = List.for_all (fun (k, v) -> List.assoc_opt k state = Some v) ms in
                  Buffer.add_string b (Printf.sprintf " state_match=%d quiescent_model=%d rest_model=%s" (if same then 1 else 0)
                                         (if quiescentb cfg fx sc.sp s then 1 else 0) (model_rest s))
                end
              end;
              Buffer.add_string b (Printf.sprintf " ev=%d spur=%d jobs=%d lers=%d term=%d" !nev !nspur (List.length d.js) d.lers (if d.termd then 1 else 0));
              print_endline (Buffer.contents b)
            end
          with Failure m -> print_endline ("DRIVER-ERROR " ^ m) | Not_found -> print_endline "DRIVER-ERROR not_found")
     done
   with End_of_file -> ());
  close_in ic
