#!/usr/bin/env python3
"""C19 — string codecs and helpers: translator (base64 / hexdump tables) -> Coq theorems (round trips, RFC 4648
equalities, helper = reference) -> correspondence of the extracted model with the real functions (ASan/UBSan),
with Python's base64 / binascii / bytes methods as the property oracle on the implementation's results."""
import base64, binascii, json, os, sys
HERE = os.path.dirname(os.path.abspath(__file__))
sys.path.insert(0, os.path.join(HERE, "..", "lib")); sys.path.insert(0, os.path.join(HERE, "..", "translate"))
import verif, tables_c19

ck = verif.Check("C19")
rng = ck.rng
translator_error = None
try:
    ck.regen([tables_c19.generate])
except (RuntimeError, OSError) as e:
    translator_error = str(e)
pr = ck.prove() if translator_error is None else None

REPO_SOURCES = ["tlx/string/%s.cpp" % n for n in
                ("base64", "hexdump", "split", "join", "join_quoted", "split_quoted", "replace", "trim", "to_lower",
                 "to_upper", "compare_icase", "starts_with", "ends_with", "contains", "erase_all", "pad",
                 "split_view", "equal_icase", "less_icase")]

# ---------------------------------------------------------------- helpers
def hx(b): return b.hex() if b else "-"
def unhx(h): return b"" if h == "-" else bytes.fromhex(h)
def show(l): return "%d:%s" % (len(l), ",".join(hx(x) for x in l))
def parse_list(t):
    if t == "EXC": return None
    n, _, body = t.partition(":")
    n = int(n)
    return [] if n == 0 else [unhx(x) for x in body.split(",")]
def fields(line):
    d = {}
    for tok in line.split():
        if "=" in tok:
            k, _, v = tok.partition("="); d[k] = v
    return d

# alphabets aimed at the case splits: separator, quote, escape, whitespace, NUL, high bytes, n/r/t, base64/hex letters
AL_SPLIT = [b",", b"a", b"b", b"\x00", b"\xff"]
AL_QUOTE = [b" ", b'"', b"\\", b"a", b"n", b"r", b"t", b"\n", b"\r", b"\t", b"\x00", b"\x80"]
AL_TRIM = [b" ", b"\t", b"\n", b"\r", b"a", b"\x00", b"\xa0"]
AL_CASE = [b"a", b"A", b"z", b"Z", b"@", b"[", b"`", b"{", b"\x00", b"\xc1", b"\xe1", b"\x80", b"0"]

def rbytes(n, alphabet=None):
    if alphabet is None:
        return bytes(rng.below(256) for _ in range(n))
    return b"".join(rng.choice(alphabet) for _ in range(n))

def all_strings(alphabet, maxlen):
    out = [b""]; frontier = [b""]
    for _ in range(maxlen):
        frontier = [s + c for s in frontier for c in alphabet]
        out += frontier
    return out

def lim_str(l): return "npos" if l is None else str(l)

# ---------------------------------------------------------------- generators
def gen_cases(thorough):
    cs = []
    scale = 80 if thorough else 3
    # --- base64: every length mod 3, line breaks at / around group and line boundaries
    for n in range(0, 14):
        for lb in (0, 4, 8, 12, 16, 76, 1, 2, 3, 5, 7):
            cs.append("b64 %s %d" % (hx(rbytes(n)), lb))
    for b in range(256):
        cs.append("b64 %s 0" % hx(bytes([b])))
        cs.append("b64 %s 4" % hx(bytes([b, 255 - b, (b * 7) & 255])))
        cs.append("hex %s" % hx(bytes([b])))
    for _ in range(600 * scale):
        n = rng.below(70) if rng.chance(3, 4) else rng.below(400)
        lb = rng.choice([0, 0, 4, 8, 64, 76, 4 * rng.below(30), rng.below(100)])
        cs.append("b64 %s %d" % (hx(rbytes(n)), lb))
    B64AL = [b"A", b"Q", b"/", b"+", b"=", b"\n", b" ", b"!", b"\x00", b"\xff", b"z", b"9", b"\t", b"\r"]
    for _ in range(500 * scale):
        cs.append("b64d %s %d" % (hx(rbytes(rng.below(14), B64AL)), rng.below(2)))
    for c in range(256):
        cs.append("b64d %s 1" % hx(b"QU" + bytes([c]) + b"F"))
        cs.append("b64d %s 0" % hx(b"QU" + bytes([c]) + b"F"))
        cs.append("phex %s" % hx(bytes([c]) + b"1" + b"a" + bytes([c])))
    # --- hexdump
    for _ in range(300 * scale):
        cs.append("hex %s" % hx(rbytes(rng.below(40))))
    HEXAL = [b"0", b"9", b"a", b"f", b"A", b"F", b"g", b"G", b" ", b"\x00", b"\xff", b"/", b":", b"@", b"`"]
    for _ in range(300 * scale):
        cs.append("phex %s" % hx(rbytes(rng.below(9), HEXAL)))
    # --- split(char): exhaustive small strings, all limits
    for s in all_strings(AL_SPLIT[:3], 5 if thorough else 4):
        for lim in (None, 0, 1, 2, 3):
            cs.append("splc 2c %s %s" % (hx(s), lim_str(lim)))
    for _ in range(400 * scale):
        s = rbytes(rng.below(16), AL_SPLIT)
        sep = rng.choice(AL_SPLIT)
        lim = rng.choice([None, None, 0, 1, 2, 3, 4, rng.below(20)])
        if rng.chance(1, 3):
            cs.append("splcm %s %s %d %s" % (hx(sep), hx(s), rng.below(8), lim_str(lim)))
        else:
            cs.append("splc %s %s %s" % (hx(sep), hx(s), lim_str(lim)))
    # --- split(string): exhaustive over {a,b}: overlapping separators, separator at the very end, partial separator at the end
    for sep in (b"a", b"aa", b"ab", b"aba", b"aaa", b""):
        for s in all_strings([b"a", b"b"], 7 if thorough else 6):
            cs.append("spls %s %s npos" % (hx(sep), hx(s)))
            if len(s) >= 3 and sep:
                cs.append("spls %s %s %d" % (hx(sep), hx(s), 1 + len(s) % 3))
    for _ in range(500 * scale):
        al = rng.choice([AL_SPLIT, [b"a", b"b"], [b",", b";", b"x"]])
        sep = rbytes(1 + rng.below(3), al)
        s = rbytes(rng.below(18), al)
        if rng.chance(1, 2): s += sep                       # separator at the very end
        if rng.chance(1, 4): s += sep[:len(sep) - 1]        # partial separator at the end
        lim = rng.choice([None, None, None, 0, 1, 2, 3, rng.below(12)])
        if rng.chance(1, 4):
            cs.append("splsm %s %s %d %s" % (hx(sep), hx(s), rng.below(8), lim_str(lim)))
        else:
            cs.append("spls %s %s %s" % (hx(sep), hx(s), lim_str(lim)))
    # --- join then split
    for _ in range(500 * scale):
        al = rng.choice([AL_SPLIT, [b"a", b"b", b","], None])
        k = rng.below(5)
        parts = [rbytes(rng.below(5), al) for _ in range(k)]
        if rng.chance(1, 2):
            sep = rng.choice(AL_SPLIT)
            if rng.chance(2, 3): parts = [p.replace(sep, b"") for p in parts]
            cs.append("joinc %s %d %s" % (hx(sep), len(parts), " ".join(hx(p) for p in parts)))
        else:
            sep = rbytes(1 + rng.below(3), al if al else AL_SPLIT)
            if rng.chance(2, 3): parts = [p.replace(sep, b"").replace(sep[:1], b"x") for p in parts]
            cs.append("joins %s %d %s" % (hx(sep), len(parts), " ".join(hx(p) for p in parts)))
    # --- join_quoted / split_quoted: exhaustive small vectors over {sep, quote, escape, 'a', '\n'}, then random
    small = all_strings([b" ", b'"', b"\\", b"a"], 2)
    for a in small:
        cs.append("jq 20 22 5c 1 %s" % hx(a))
        for b in small:
            cs.append("jq 20 22 5c 2 %s %s" % (hx(a), hx(b)))
    for _ in range(700 * scale):
        k = rng.below(5)
        parts = [rbytes(rng.below(6), AL_QUOTE if rng.chance(5, 6) else None) for _ in range(k)]
        if rng.chance(3, 4): sep, q, e = b" ", b'"', b"\\"
        elif rng.chance(2, 3):
            trio = []
            while len(trio) < 3:
                c = rng.choice(AL_QUOTE + [b";", b"'", b"r", b"t", b"\r"])
                if c not in trio: trio.append(c)
            sep, q, e = trio
        else:
            sep, q, e = rng.choice(AL_QUOTE), rng.choice(AL_QUOTE), rng.choice(AL_QUOTE)
        cs.append("jq %s %s %s %d %s" % (hx(sep), hx(q), hx(e), len(parts), " ".join(hx(p) for p in parts)))
    for s in all_strings([b" ", b'"', b"\\", b"n"], 5 if thorough else 4):
        cs.append("sq 20 22 5c %s" % hx(s))
    for body in all_strings([b"\\", b"n", b"r", b"t", b'"', b"x"], 3):     # every escape sequence inside a quoted field
        cs.append("sq 20 22 5c %s" % hx(b'"' + body + b'"'))
    for c in (b"\n", b"\r", b"\t", b"\\", b'"', b"n", b"r", b"t"):                 # every character the writer treats specially
        cs.append("jq 20 22 5c 2 %s %s" % (hx(b"a " + c), hx(c)))
        cs.append("jq 3b 27 5e 1 %s" % hx(c + b";" + c))
    for _ in range(300 * scale):
        cs.append("sq %s %s %s %s" % (hx(rng.choice(AL_QUOTE)), hx(rng.choice(AL_QUOTE)), hx(rng.choice(AL_QUOTE)), hx(rbytes(rng.below(10), AL_QUOTE))))
    # --- replace: overlapping needles
    for nd in (b"a", b"aa", b"ab", b"aba"):
        for s in all_strings([b"a", b"b"], 6 if thorough else 5):
            cs.append("repa %s %s %s" % (hx(s), hx(nd), hx(b"a" if len(s) % 2 else b"xy")))
            cs.append("rep1 %s %s %s" % (hx(s), hx(nd), hx(b"" if len(s) % 2 else b"aab")))
    for _ in range(400 * scale):
        al = rng.choice([[b"a", b"b"], AL_SPLIT, None])
        s = rbytes(rng.below(20), al); nd = rbytes(1 + rng.below(3), al); ins = rbytes(rng.below(4), al)
        r = rng.below(5)
        if r == 0: cs.append("rep1 %s %s %s" % (hx(s), hx(nd if rng.chance(4, 5) else b""), hx(ins)))
        elif r == 1: cs.append("rep1c %s %s %s" % (hx(s), hx(nd[:1]), hx(rbytes(1, al))))
        elif r == 2: cs.append("repac %s %s %s" % (hx(s), hx(nd[:1]), hx(rbytes(1, al))))
        else: cs.append("repa %s %s %s" % (hx(s), hx(nd), hx(ins)))
    # --- trim family
    for s in all_strings([b" ", b"\t", b"a"], 5 if thorough else 4):
        cs.append("trim %s 200d0a09" % hx(s))
        cs.append("trim %s 20" % hx(s))
    for _ in range(300 * scale):
        cs.append("trim %s %s" % (hx(rbytes(rng.below(12), AL_TRIM)), hx(rbytes(rng.below(4), AL_TRIM))))
    # --- starts/ends_with, contains
    for _ in range(500 * scale):
        al = rng.choice([[b"a", b"A", b"b"], AL_CASE, [b"a", b"b", b"\x00"]])
        s = rbytes(rng.below(10), al)
        r = rng.below(4)
        if r == 0: m = s[:rng.below(len(s) + 1)]
        elif r == 1: m = s[rng.below(len(s) + 1):]
        elif r == 2: a = rng.below(len(s) + 1); m = s[a:a + rng.below(4)]
        else: m = rbytes(rng.below(5), al)
        if rng.chance(1, 3): m = m.swapcase()
        cs.append("sw %s %s" % (hx(s), hx(m)))
    # --- case conversion: all 256 bytes, compare_icase: prefix pairs, high bytes, case pairs
    cs.append("case %s" % hx(bytes(range(256))))
    for _ in range(100 * scale):
        cs.append("case %s" % hx(rbytes(rng.below(12), AL_CASE)))
    for a in all_strings([b"a", b"B", b"\x80"], 3):
        for b in all_strings([b"A", b"b", b"\x80", b"["], 2):
            cs.append("cmp %s %s" % (hx(a), hx(b)))
    for _ in range(500 * scale):
        a = rbytes(rng.below(8), AL_CASE)
        r = rng.below(4)
        if r == 0: b = a[:rng.below(len(a) + 1)]
        elif r == 1: b = a + rbytes(1 + rng.below(2), AL_CASE)
        elif r == 2: b = a.swapcase()[:rng.below(len(a) + 1)] + rbytes(rng.below(3), AL_CASE)
        else: b = rbytes(rng.below(8), AL_CASE)
        cs.append("cmp %s %s" % (hx(a), hx(b)))
    # --- erase_all, pad
    for s in all_strings([b" ", b"a", b"b"], 5 if thorough else 4):
        cs.append("era %s 20" % hx(s)); cs.append("era %s 2061" % hx(s))
    for _ in range(200 * scale):
        cs.append("era %s %s" % (hx(rbytes(rng.below(14), AL_TRIM)), hx(rbytes(rng.below(4), AL_TRIM))))
        cs.append("pad %s %d %s" % (hx(rbytes(rng.below(8))), rng.below(14), hx(rbytes(1))))
    # --- levenshtein: exhaustive small, random, unequal lengths (row swap)
    sm = all_strings([b"a", b"b"], 3)
    for a in sm:
        for b in sm:
            cs.append("lev %s %s" % (hx(a), hx(b)))
    for _ in range(400 * scale):
        al = rng.choice([[b"a", b"b"], [b"a", b"A", b"b", b"B"], AL_CASE])
        a = rbytes(rng.below(7 if rng.chance(3, 4) else 30), al)
        r = rng.below(3)
        if r == 0: b = rbytes(rng.below(7 if len(a) < 7 else 30), al)
        elif r == 1:                                    # a few edits of a
            b = bytearray(a)
            for _ in range(rng.below(4)):
                k = rng.below(3); p = rng.below(len(b) + 1)
                if k == 0: b[p:p] = rbytes(1, al)
                elif k == 1 and p < len(b): del b[p]
                elif p < len(b): b[p:p + 1] = rbytes(1, al)
            b = bytes(b)
        else: b = a.swapcase()
        cs.append("lev %s %s" % (hx(a), hx(b)))
    # --- aliasing regime: argument VALUES that can share storage (equal, prefix, suffix, infix, overlapping) so that the
    #     harness' one-buffer layouts (same start / same end / contained / overlap / same range twice) are all reached
    def related(a, al):
        r = rng.below(6)
        if r == 0 or not a: return a                                              # equal: the same range twice
        if r == 1: return a[:rng.below(len(a) + 1)]                               # prefix: same start, different length
        if r == 2: return a[rng.below(len(a) + 1):]                               # suffix: same end
        if r == 3: i = rng.below(len(a)); return a[i:i + 1 + rng.below(3)]       # infix
        if r == 4: k = 1 + rng.below(len(a)); return a[len(a) - k:] + rbytes(1 + rng.below(3), al)   # overlaps the end
        return a + rbytes(1 + rng.below(2), al)                                   # a is a proper prefix of b
    for a in all_strings([b"a", b"b"], 3):                                        # exhaustive small: every (string, prefix/suffix/infix) pair
        subs = {a[i:j] for i in range(len(a) + 1) for j in range(i, len(a) + 1)}
        for b in sorted(subs):
            cs.append("lev %s %s" % (hx(a), hx(b))); cs.append("lev %s %s" % (hx(b), hx(a)))
            cs.append("cmp %s %s" % (hx(a), hx(b))); cs.append("sw %s %s" % (hx(a), hx(b)))
            if b:
                cs.append("spls %s %s npos" % (hx(b), hx(a))); cs.append("repa %s %s %s" % (hx(a), hx(b), hx(a[:1])))
                cs.append("trim %s %s" % (hx(a), hx(b))); cs.append("era %s %s" % (hx(a), hx(b)))
    for _ in range(250 * scale):
        al = rng.choice([[b"a", b"b"], [b"a", b"A", b"b", b"B", b" "], [b"a", b"b", b",", b"\x80"], AL_CASE])
        a = rbytes(1 + rng.below(9), al); b = related(a, al); c = related(a, al)
        if rng.chance(1, 2): a0, b0 = a, b
        else: a0, b0 = b, a
        r = rng.below(10)
        if r <= 1: cs.append("lev %s %s" % (hx(a0), hx(b0)))
        elif r == 2: cs.append("cmp %s %s" % (hx(a0), hx(b0 if rng.chance(2, 3) else b0.swapcase())))
        elif r == 3: cs.append("sw %s %s" % (hx(a), hx(b if rng.chance(2, 3) else b.swapcase())))
        elif r == 4 and b: cs.append("spls %s %s %s" % (hx(b), hx(a), lim_str(rng.choice([None, None, 1, 2, 3]))))
        elif r == 5 and b: cs.append("%s %s %s %s" % (rng.choice(["repa", "rep1"]), hx(a), hx(b), hx(c)))
        elif r == 6: cs.append("trim %s %s" % (hx(a), hx(b)))
        elif r == 7: cs.append("era %s %s" % (hx(a), hx(b)))
        elif r == 8 and b:                                                         # the glue is one of the joined strings / a piece of one
            parts = [rbytes(rng.below(3), al) for _ in range(rng.below(3))] + [a] + [rbytes(rng.below(3), al) for _ in range(rng.below(3))]
            if rng.chance(1, 2): parts[rng.below(len(parts))] = b
            cs.append("joins %s %d %s" % (hx(b), len(parts), " ".join(hx(x) for x in parts)))
        else: cs.append("lev %s %s" % (hx(a0.swapcase()), hx(b0)))
    # --- default-argument overloads on an alphabet with NUL / control / high bytes at both ends: the no-argument trim family
    #     (documented default set " \r\n\t"), erase_all() / pad() with their default character
    DEF_AL = [b"x", b" ", b"\t", b"\n", b"\r", b"\x00", b"\xff", b"\x0b"]
    for s0 in all_strings(DEF_AL, 5 if thorough else 4):
        cs.append("trim %s 200d0a09" % hx(s0))
    for s0 in all_strings(DEF_AL, 3):
        cs.append("era %s 20" % hx(s0)); cs.append("pad %s %d 20" % (hx(s0), len(s0) + 1 - (len(s0) % 3)))
    EDGE = [b"\x00", b"\x01", b"\x7f", b"\x80", b"\xff", b"\x0b", b"\x0c", b" ", b"\t", b"\n", b"\r"]
    for _ in range(120 * scale):
        core = rbytes(rng.below(4), [b"x", b"\x00", b" ", b"\xff"])
        s0 = rbytes(rng.below(4), EDGE) + core + rbytes(rng.below(4), EDGE)
        cs.append("trim %s 200d0a09" % hx(s0))
        if rng.chance(1, 4): cs.append("era %s 20" % hx(s0)); cs.append("pad %s %d 20" % (hx(s0), rng.below(12)))
        if rng.chance(1, 4): cs.append("jq 20 22 5c 2 %s %s" % (hx(s0), hx(core)))
    # --- huge sizes: one sparse zero mapping, written head / tail bytes; only helpers that touch the ends (see harness)
    HS = [2 ** 31 - 1, 2 ** 31, 2 ** 31 + 1, 2 ** 32 - 1, 2 ** 32, 2 ** 32 + 1]
    HV = [(b"Hello", b".TXT", b".txt", b" ", 5), (b"  ab", b"cd \t", b"", b" \t\r\n", 3), (b"aB", b"xyz", b"yz", b"z", 0),
          (b"\xff\x80", b"\x80\xff", b"\xff", b"\xff", 9), (b"abc", b"abc", b"abcd", b"cba", 2)]
    for n in HS:
        for (h, t, m, d, pl) in (HV if thorough else HV[:3] + [HV[rng.below(len(HV))]]):
            cs.append("huge %d %s %s %s %s %d" % (n, hx(h), hx(t), hx(m), hx(d), pl))
        # the match is the tail itself / the head itself / one byte more than fits
        t = rbytes(1 + rng.below(5), [b"a", b"B", b".", b"\x00", b"\xe1"]); h = b"Q" + rbytes(rng.below(4), [b"a", b"B", b" "])
        cs.append("huge %d %s %s %s %s %d" % (n, hx(h), hx(t), hx(t), hx(b"Q"), 1 + rng.below(6)))
        cs.append("huge %d %s %s %s %s %d" % (n, hx(h), hx(t), hx(h), hx(t.replace(b"\x00", b"x")), 0))
        cs.append("huge %d %s %s %s %s %d" % (n, hx(h), hx(t), hx((h + b"\x00")[:6]), hx(h[:1]), 2))
    # --- regimes added by the hypothesis audit (docs/audit/C19.md): arguments the earlier generator never produced
    BIG = 4611686018427387903                               # 2^62 - 1: a huge limit other than npos
    for lim in (BIG, 2 ** 32, 2 ** 31 - 1):
        cs.append("splc 2c 612c2c62 %d" % lim); cs.append("spls 2c2c 612c2c2c62 %d" % lim); cs.append("splcm 2c 612c62 3 %d" % lim)
    for k in range(0, 5):                                    # empty glue / empty separator, with and without limits
        parts = [rbytes(rng.below(3), [b"a", b"b"]) for _ in range(k)]
        cs.append("joins - %d %s" % (k, " ".join(hx(x) for x in parts)))
        for lim in (None, 0, 1, 2, 7):
            cs.append("spls - %s %s" % (hx(b"abcdef"[:k + 2]), lim_str(lim)))
    for _ in range(2 * scale):                               # long inputs for the helpers (base64 has its own long block)
        al = rng.choice([[b"a", b"b", b","], AL_TRIM, None])
        n = 150 + rng.below(450); s0 = rbytes(n, al)
        cs.append("spls %s %s %s" % (hx(rbytes(1 + rng.below(2), al)), hx(s0), lim_str(rng.choice([None, 3, 50]))))
        cs.append("splc %s %s %s" % (hx(rbytes(1, al)), hx(s0), lim_str(rng.choice([None, 3, 50]))))
        cs.append("repa %s %s %s" % (hx(s0), hx(rbytes(1 + rng.below(2), al)), hx(rbytes(rng.below(3), al))))
        cs.append("trim %s %s" % (hx(rbytes(40, AL_TRIM[:4]) + s0 + rbytes(40, AL_TRIM[:4])), hx(b" \t\n\r")))
        cs.append("era %s %s" % (hx(s0), hx(rbytes(2, al)))); cs.append("case %s" % hx(s0)); cs.append("hex %s" % hx(s0))
        cs.append("sw %s %s" % (hx(s0), hx(s0[n - 30:]))); cs.append("cmp %s %s" % (hx(s0.replace(b"\x00", b"x")), hx(s0.replace(b"\x00", b"x").swapcase() + b"z")))
        cs.append("pad %s %d 2e" % (hx(s0[:20]), 200 + rng.below(800)))
        a = rbytes(40 + rng.below(40), [b"a", b"b", b"A"]); cs.append("lev %s %s" % (hx(a), hx(a[5:30] + rbytes(20, [b"a", b"b"]) + a[35:])))
        cs.append("jq 20 22 5c 4 %s %s - %s" % (hx(s0[:120]), hx(s0[120:300]), hx(b'"' + s0[300:320])))
    for c in (11, 12, 61, 0, 127, 128, 255):                 # base64 decoding: every class of the decode table inside a group, strict and lax
        for strict in (0, 1):
            cs.append("b64d %s %d" % (hx(b"QUJD" + bytes([c]) + b"RA=="), strict)); cs.append("b64d %s %d" % (hx(bytes([c]) * 3), strict))
    for tail in (b"Q", b"QQ", b"QQQ", b"QQ=", b"QQ=Q", b"=QQ==QQ=="):   # incomplete groups, padding in the middle
        cs.append("b64d %s 1" % hx(b"QUJD" + tail)); cs.append("b64d %s 0" % hx(tail))
    for h in (b"a", b"abc", b"aB", b"Ab", b"0g", b"g0", b"0x41", b" 41", b"41 "):   # odd length, mixed case, non-digits first / second
        cs.append("phex %s" % hx(h))
    # --- regimes added by the API-surface audit -------------------------------------------------------------
    ALL = bytes(range(256))
    # base64: long inputs crossing the line-break width several times, widths 4 / 8 / 76 (and 0, 64), lengths around the
    # 57-byte (= 76 characters) line boundary and around multiples of 3; all 256 byte values
    for lb in (0, 4, 8, 64, 76):
        cs.append("b64 %s %d" % (hx(ALL), lb)); cs.append("b64 %s %d" % (hx(ALL[::-1] + ALL[:2]), lb))
        for n in (56, 57, 58, 113, 114, 115, 171, 172):
            cs.append("b64 %s %d" % (hx(rbytes(n)), lb))
    for _ in range(20 * scale):
        cs.append("b64 %s %d" % (hx(rbytes(180 + rng.below(500))), rng.choice([4, 8, 76, 76, 0])))
    cs.append("hex %s" % hx(ALL)); cs.append("case %s" % hx(ALL[::-1]))
    for n in (1, 2, 4, 8, 12):                              # sizes of the hexdump_type<T> instantiations
        for _ in range(3): cs.append("hex %s" % hx(rbytes(n)))
    cs.append("b64d %s 0" % hx(ALL)); cs.append("b64d %s 1" % hx(ALL)); cs.append("phex %s" % hx(ALL[:64]))
    cs.append("era %s %s" % (hx(ALL), hx(ALL[1::2]))); cs.append("trim %s %s" % (hx(ALL + ALL[::-1]), hx(ALL[:100] )))
    cs.append("repa %s %s %s" % (hx(ALL + ALL), hx(ALL[65:67]), hx(b"\x00\xff"))); cs.append("sw %s %s" % (hx(ALL), hx(ALL[200:])))
    cs.append("splc 00 %s npos" % hx(ALL + ALL)); cs.append("spls ff00 %s npos" % hx(ALL + ALL + ALL[:1]))
    cs.append("jq 20 22 5c 3 %s %s %s" % (hx(ALL), hx(ALL[::-1]), hx(ALL[9:14])))
    cs.append("lev %s %s" % (hx(ALL[:60]), hx(ALL[30:90]))); cs.append("cmp %s %s" % (hx(ALL[1:]), hx(ALL[1:].swapcase())))
    # split: separators longer than the string, limits 0 / 1 / 2 / npos, strings consisting only of separators
    for sep in (b",", b"ab", b"aba", b",,"):
        for k in range(0, 6):
            only = sep * k
            for lim in (None, 0, 1, 2):
                cs.append("spls %s %s %s" % (hx(sep), hx(only), lim_str(lim)))
                cs.append("spls %s %s %s" % (hx(sep), hx(only + sep[:1]), lim_str(lim)))
                if len(sep) == 1: cs.append("splc %s %s %s" % (hx(sep), hx(only), lim_str(lim)))
            cs.append("splsm %s %s %d %s" % (hx(sep), hx(only), k, lim_str(rng.choice([None, 1, 2]))))
        for s0 in (b"", b"a", b"b", sep[:len(sep) - 1], sep[1:]):      # shorter than the separator
            for lim in (None, 0, 1, 2):
                cs.append("spls %s %s %s" % (hx(sep + b"xyz"), hx(s0), lim_str(lim)))
                cs.append("spls %s %s %s" % (hx(sep), hx(s0), lim_str(lim)))
    for s0 in all_strings([b"a", b"b"], 4):
        for lim in (0, 1, 2):
            cs.append("spls 61 %s %d" % (hx(s0), lim)); cs.append("spls 6162 %s %d" % (hx(s0), lim))
    for k in range(1, 5):
        cs.append("joinc 2c %d %s" % (k, " ".join(["-"] * k))); cs.append("joins 2c20 %d %s" % (k, " ".join(["-"] * k)))
    # trim / erase_all: strings consisting only of drop characters (every overload: string set, single char, default set)
    for k in range(0, 7):
        cs.append("trim %s 200d0a09" % hx(b" \t\r\n"[:k % 5] * (1 + k // 2))); cs.append("trim %s 20" % hx(b" " * k))
        cs.append("trim %s 6162" % hx(b"ab" * k)); cs.append("era %s 20" % hx(b" " * k)); cs.append("era %s 6162" % hx(b"ba" * k))
        cs.append("pad %s %d 20" % (hx(b"x" * k), 3)); cs.append("pad %s %d 20" % (hx(rbytes(k)), k))
    # equal_icase / less_icase / compare_icase: equal up to case, proper prefixes, high bytes (NUL-free: const char* overloads run)
    NN = [b"a", b"A", b"b", b"Z", b"z", b"[", b"@", b"\x80", b"\xc1", b"\xe1", b"\xff", b"1"]
    for _ in range(150 * scale):
        a = rbytes(rng.below(7), NN); r = rng.below(4)
        b = a.swapcase() if r == 0 else a[:rng.below(len(a) + 1)] if r == 1 else a.swapcase() + rbytes(1, NN) if r == 2 else rbytes(rng.below(7), NN)
        cs.append("cmp %s %s" % (hx(a), hx(b)))
    return cs

# ---------------------------------------------------------------- property oracle on the implementation's line
def lev_ref(a, b, eq, cid=1, crep=1, boundary=None):
    """weighted edit distance; boundary = cost per step of the first row / column (None: cid, as it should be)"""
    if boundary is None: boundary = cid
    if not a: return len(b) * cid
    if not b: return len(a) * cid
    prev = [j * boundary for j in range(len(b) + 1)]
    for i in range(1, len(a) + 1):
        cur = [i * boundary] + [0] * len(b)
        for j in range(1, len(b) + 1):
            cur[j] = min(prev[j] + cid, cur[j - 1] + cid, prev[j - 1] + (0 if eq(a[i - 1], b[j - 1]) else crep))
        prev = cur
    return prev[len(b)]

def huge_ref(n, h, t, m, d, padlen):
    """direct definitions on the virtual string  h + zeros + t  of n bytes (n far larger than every other argument)"""
    at = lambda i: h[i] if i < len(h) else (t[i - (n - len(t))] if i >= n - len(t) else 0)
    lo = lambda c: c + 32 if 65 <= c <= 90 else c
    pre = bytes(at(i) for i in range(len(m))); suf = bytes(at(n - len(m) + i) for i in range(len(m)))
    sw, swi, ew, ewi = pre == m, pre.lower() == m.lower(), suf == m, suf.lower() == m.lower()
    def cmp3(x_at, xn, y_at, yn):                      # sign of strcmp on lower-cased bytes; stops at the first difference
        i = 0
        while i < xn and i < yn:
            a, b = lo(x_at(i)), lo(y_at(i))
            if a != b: return -1 if a < b else 1
            i += 1
            assert i < 64, "comparison would scan the view"
        return (xn > yn) - (xn < yn)
    m_at = lambda i: m[i]
    c1 = cmp3(at, n, m_at, len(m)); c2 = -c1
    c3 = cmp3(at, n, lambda i: at(i + 1), n - 1); c4 = -c3
    b = lambda x: "1" if x else "0"
    inset = lambda c: bytes([c]) in [d[i:i + 1] for i in range(len(d))]
    rl = 0
    while inset(at(rl)): rl += 1
    rr = 0
    while inset(at(n - 1 - rr)): rr += 1
    padded = bytes(at(i) for i in range(padlen))
    return ("sw=%s swi=%s ew=%s ewi=%s rsw=0 rswi=0 rew=0 rewi=0 cmp=%d eq=0 lt=%s rcmp=%d req=0 rlt=%s scmp=%d,%d seq=0 slt=%s,%s tl=%d:%d tr=0:%d t=%d:%d pad=%s"
            % (b(sw), b(swi), b(ew), b(ewi), c1, b(c1 < 0), c2, b(c2 < 0), c3, c4, b(c3 < 0), b(c4 < 0),
               rl, n - rl, n - rr, rl, n - rl - rr, hx(padded)))

B64_ALPHA = b"ABCDEFGHIJKLMNOPQRSTUVWXYZabcdefghijklmnopqrstuvwxyz0123456789+/"
def b64decode_ref(s, strict):
    """documented behaviour of base64_decode on ANY input: whitespace (and the padding '=') is skipped, any other
    character outside the alphabet throws when strict and is skipped otherwise; complete bytes of the 6-bit stream are returned"""
    vals = []
    for c in s:
        k = B64_ALPHA.find(bytes([c]))
        if k >= 0: vals.append(k)
        elif c in b" \t\n\r=": continue
        elif strict: return None
    out = bytearray()
    for i in range(0, len(vals), 4):
        g = vals[i:i + 4]
        if len(g) >= 2: out.append(((g[0] << 2) | (g[1] >> 4)) & 255)
        if len(g) >= 3: out.append(((g[1] << 4) | (g[2] >> 2)) & 255)
        if len(g) >= 4: out.append(((g[2] << 6) | g[3]) & 255)
    return bytes(out)

def parse_hex_ref(s):
    """documented behaviour of parse_hexdump on ANY input: pairs of hex digits of either case; anything else (incl. a lone last digit) throws"""
    H = b"0123456789abcdef"
    if len(s) % 2: 
        # the first offending position decides nothing observable: any defect yields the exception
        return None
    out = bytearray()
    for i in range(0, len(s), 2):
        a, b = H.find(bytes([s[i]]).lower()), H.find(bytes([s[i + 1]]).lower())
        if a < 0 or b < 0: return None
        out.append(a * 16 + b)
    return bytes(out)

def sourcecode_ref(s, name):
    out = b"const std::uint8_t " + name + b"[" + str(len(s)).encode() + b"] = {\n"
    for i, c in enumerate(s):
        out += b"0x%02X" % c
        if i + 1 < len(s):
            out += b","
            if i % 16 == 15: out += b"\n"
    return out + b"\n};\n"

def py_split(s, sep, lim):
    if lim == 0: return []
    return s.split(sep, -1 if lim is None else lim - 1)

def lim_of(t): return None if t == "npos" else int(t)
def sign(x): return (x > 0) - (x < 0)

doc_obs = {}
def observe(what, case, impl):
    o = doc_obs.setdefault(what, {"count": 0, "first_witness": case, "result": impl[:160]}); o["count"] += 1

def oracle(case, impl, extra=None):
    """None if the implementation's result satisfies the property on this case (or the property says nothing), else text"""
    t = case.split(); op = t[0]; f = fields(impl)
    if "!OVERLOAD" in impl: return "overloads of the same function disagree: " + impl[impl.index("!OVERLOAD"):]
    if "!ALIAS" in impl: return "result depends on how the arguments are laid out in memory (views of one buffer / the same object twice) although the values are the same: " + impl[impl.index("!ALIAS"):]
    if op == "b64":
        s, lb = unhx(t[1]), int(t[2]); enc = unhx(f["enc"])
        if enc.replace(b"\n", b"") != base64.b64encode(s): return "base64_encode (line breaks removed) differs from RFC 4648 / Python base64"
        if lb == 0 and b"\n" in enc: return "line break although line_break = 0"
        if f["decs"] == "EXC" or unhx(f["decs"]) != s or f["decn"] == "EXC" or unhx(f["decn"]) != s:
            if lb % 4 == 0: return "base64_decode(base64_encode(s, lb)) != s"
    elif op == "huge":
        if impl.strip() == "unavailable": return None           # the 4 GiB sparse mapping could not be created on this machine (counted)
        n = int(t[1]); h, tl_, m, d, pl = unhx(t[2]), unhx(t[3]), unhx(t[4]), unhx(t[5]), int(t[6])
        ref = huge_ref(n, h, tl_, m, d, pl)
        got = impl.split(" !")[0].strip()
        if got != ref: return "helper on a view of %d bytes differs from the direct definition on (head, tail, size): expected %s" % (n, ref)
    elif op == "b64d":
        ref = b64decode_ref(unhx(t[1]), t[2] == "1")
        if f["out"] != ("EXC" if ref is None else hx(ref)): return "base64_decode on arbitrary input differs from its documentation (whitespace and '=' skipped; other invalid characters throw when strict, are skipped otherwise)"
    elif op == "phex":
        ref = parse_hex_ref(unhx(t[1]))
        if f["out"] != ("EXC" if ref is None else hx(ref)): return "parse_hexdump on arbitrary input differs from its documentation (pairs of hex digits of either case, else std::runtime_error)"
    elif op == "hex":
        s = unhx(t[1])
        if unhx(f["lc"]) != binascii.hexlify(s) or unhx(f["uc"]) != binascii.hexlify(s).upper(): return "hexdump differs from RFC 4648 base16 / binascii.hexlify"
        if f["puc"] == "EXC" or unhx(f["puc"]) != s or f["plc"] == "EXC" or unhx(f["plc"]) != s: return "parse_hexdump(hexdump(s)) != s"
        if extra:
            for key, name in (("src", b"v"), ("srcn", b"name")):
                if unhx(extra[key]) != sourcecode_ref(s, name): return "hexdump_sourcecode differs from its documented layout (0xHH, 16 per line)"
    elif op in ("splc", "splcm"):
        sep, s = unhx(t[1]), unhx(t[2]); mn = int(t[3]) if op == "splcm" else 0; lim = lim_of(t[-1])
        ref = py_split(s, sep, lim); ref += [b""] * max(0, mn - len(ref))
        if parse_list(impl.split()[0]) != ref: return "split(char) differs from the documented definition (Python bytes.split with maxsplit = limit-1)"
    elif op in ("spls", "splsm"):
        sep, s = unhx(t[1]), unhx(t[2]); mn = int(t[3]) if op == "splsm" else 0; lim = lim_of(t[-1])
        if sep == b"":
            # every character a part of its own; at most `limit` parts, the last one being the rest of the string
            chars = [bytes([c]) for c in s]
            if lim == 0: ref = []
            elif lim is None or len(chars) <= lim: ref = chars
            else: ref = chars[:lim - 1] + [s[lim - 1:]]
        else:
            ref = py_split(s, sep, lim)
        ref += [b""] * max(0, mn - len(ref))
        if parse_list(impl.split()[0]) != ref: return "split(string) differs from the documented definition (leftmost non-overlapping separators; at most limit parts, the last one being the unsplit rest; Python bytes.split with maxsplit = limit-1)"
    elif op in ("joinc", "joins"):
        sep = unhx(t[1]); parts = [unhx(x) for x in t[3:3 + int(t[2])]]
        if unhx(f["j"]) != sep.join(parts): return "join differs from its definition"
        if clean_parts(parts, sep) and parse_list(f["s"]) != parts: return "split(join(parts)) != parts although no separator occurs in or straddles the parts"
    elif op == "jq":
        sep, q, e = unhx(t[1]), unhx(t[2]), unhx(t[3]); parts = [unhx(x) for x in t[5:5 + int(t[4])]]
        if sep != q and q != e and q not in b"nrt" and e not in b"nrt":
            if parse_list(f["s"]) != parts: return "split_quoted(join_quoted(v)) != v"
        elif parse_list(f["s"]) != parts:
            observe("documented precondition of join_quoted/split_quoted (quote differs from separator and escape; quote, escape not one of n, r, t) not met: no round trip", case, impl)
    elif op == "rep1":
        s, nd, ins = unhx(t[1]), unhx(t[2]), unhx(t[3])
        if unhx(impl.split()[0]) != s.replace(nd, ins, 1): return "replace_first differs from bytes.replace(needle, instead, 1)"
    elif op == "repa":
        s, nd, ins = unhx(t[1]), unhx(t[2]), unhx(t[3])
        if unhx(impl.split()[0]) != s.replace(nd, ins): return "replace_all differs from leftmost non-overlapping replacement (bytes.replace)"
    elif op == "rep1c":
        s, a, b = unhx(t[1]), unhx(t[2]), unhx(t[3])
        if unhx(impl.split()[0]) != s.replace(a, b, 1): return "replace_first(char) differs"
    elif op == "repac":
        s, a, b = unhx(t[1]), unhx(t[2]), unhx(t[3])
        if unhx(impl.split()[0]) != s.replace(a, b): return "replace_all(char) differs"
    elif op == "trim":
        s, d = unhx(t[1]), unhx(t[2])
        strip = (lambda x, fn: fn(x, d)) if d else (lambda x, fn: x)
        if unhx(f["ti"]) != strip(s, bytes.strip) or unhx(f["tc"]) != strip(s, bytes.strip): return "trim differs from bytes.strip(drop)"
        if unhx(f["l"]) != strip(s, bytes.lstrip): return "trim_left differs from bytes.lstrip(drop)"
        if unhx(f["r"]) != strip(s, bytes.rstrip): return "trim_right differs from bytes.rstrip(drop)"
    elif op == "sw":
        s, m = unhx(t[1]), unhx(t[2])
        ref = "sw=%d swi=%d ew=%d ewi=%d c=%d" % (s.startswith(m), s.lower().startswith(m.lower()), s.endswith(m), s.lower().endswith(m.lower()), m in s)
        if impl.strip() != ref: return "starts_with/ends_with/contains differ from bytes.startswith/endswith/in: expected " + ref
    elif op == "case":
        s = unhx(t[1])
        if unhx(f["lo"]) != s.lower() or unhx(f["up"]) != s.upper(): return "to_lower/to_upper differ from ASCII case conversion"
    elif op == "cmp":
        a, b = unhx(t[1]).lower(), unhx(t[2]).lower()
        if int(impl.split()[0]) != sign((a > b) - (a < b)): return "compare_icase differs from the sign of strcmp on the lower-cased strings"
        if f["eq"] != ("1" if a == b else "0"): return "equal_icase differs from equality of the lower-cased strings"
        if f["lt"] != ("1" if a < b else "0"): return "less_icase differs from < on the lower-cased strings (unsigned bytes, consistent with compare_icase)"
    elif op == "era":
        s, d = unhx(t[1]), unhx(t[2]); ref = s.translate(None, d)
        if unhx(f["c"]) != ref or unhx(f["i"]) != ref: return "erase_all differs from removing every occurrence"
    elif op == "pad":
        s, n, c = unhx(t[1]), int(t[2]), unhx(t[3])
        if unhx(impl.split()[0]) != s[:n].ljust(n, c): return "pad differs from truncate-or-pad"
    elif op == "lev":
        a, b = unhx(t[1]), unhx(t[2])
        if int(f["d"]) != lev_ref(a, b, lambda x, y: x == y): return "levenshtein differs from the edit distance"
        lo = lambda c: c + 32 if 65 <= c <= 90 else c
        if int(f["di"]) != lev_ref(a, b, lambda x, y: lo(x) == lo(y)): return "levenshtein_icase differs from the case-insensitive edit distance"
        if extra:
            weq = lambda x, y: (x | 32) == (y | 32); lw = int(extra["lw"])
            if lw != lev_ref(a, b, weq, 2, 3): return "levenshtein_algorithm<custom Param> (insert/delete 2, replace 3) differs from the weighted edit distance"
    return None

def clean_parts(parts, sep):
    """hypothesis of the split/join round trip: non-empty list, and in join(sep, parts) no occurrence of sep begins inside a part"""
    if not parts or not sep: return False
    j = sep.join(parts); st = 0
    for p in parts:
        k = j.find(sep, st)
        if k != -1 and k < st + len(p): return False
        st += len(p) + len(sep)
    return True

def nontrivial(case, impl):
    """non-trivial = the case exercises a branch beyond the empty/identity path (rule stated in the evidence)"""
    t = case.split(); op = t[0]
    if op == "huge": return impl != "unavailable"
    if op in ("b64", "hex"): return t[1] != "-"
    if op in ("b64d", "phex", "sq"): return t[-1 if op != "b64d" else 1] != "-"
    if op.startswith("spl"): return not impl.startswith("1:") and not impl.startswith("0:")
    if op in ("joinc", "joins", "jq"): return int(t[2] if op != "jq" else t[4]) >= 2
    if op in ("rep1", "repa", "rep1c", "repac", "pad"): return impl.split()[0] != t[1]
    if op == "trim": return not impl.startswith("ti=" + t[1] + " ")
    if op == "era": return not impl.startswith("c=" + t[1] + " ")
    if op == "case": return not impl.startswith("lo=%s up=%s" % (t[1], t[1]))
    if op == "sw": return "1" in impl
    if op == "cmp": return t[1] != "-" and t[2] != "-"
    if op == "lev": return t[1] != "-" and t[2] != "-" and t[1] != t[2]
    return True


# ---------------------------------------------------------------- API surface (audit): every public entry point of the
# anchored files and of their siblings; "op" = case kind of harness/C19/string_harness.cpp that calls it
def _api():
    T = []
    def add(fn, sigs, op, note=""):
        for sg in sigs:
            T.append({"function": fn, "signature": sg, "called_by_harness": op is not None, "case_kind": op or "-", "note": note})
    add("base64_encode", ["(const void*, size_t, size_t line_break)", "(string_view, size_t line_break)"], "b64")
    add("base64_encode", ["(const void*, size_t) [default line_break]", "(string_view) [default line_break]"], "b64", "called when line_break = 0")
    add("base64_decode", ["(const void*, size_t, bool strict)", "(string_view, bool strict)"], "b64,b64d", "strict = true and false")
    add("base64_decode", ["(const void*, size_t) [default strict]", "(string_view) [default strict]"], "b64,b64d")
    add("hexdump", ["(const void*, size_t)", "(string_view)", "(const std::vector<char>&)", "(const std::vector<uint8_t>&)"], "hex")
    add("hexdump_lc", ["(const void*, size_t)", "(string_view)", "(const std::vector<char>&)", "(const std::vector<uint8_t>&)"], "hex")
    add("hexdump_type<T> / hexdump_lc_type<T>", ["T = uint8_t, uint16_t, uint32_t, uint64_t, 12-byte struct"], "hex", "when the input has 1/2/4/8/12 bytes")
    add("hexdump_sourcecode", ["(string_view, string_view var_name)", "(string_view) [default var_name]"], "hex", "judged by the Python oracle only (no Coq model)")
    add("parse_hexdump", ["(string_view)"], "hex,phex")
    for ret in ("std::vector<std::string>", "std::vector<std::string>& (into)"):
        add("split", ["%s (char, string_view, limit)" % ret, "%s (string_view, string_view, limit)" % ret,
                      "%s (char, string_view, min_fields, limit)" % ret, "%s (string_view, string_view, min_fields, limit)" % ret], "splc,spls,splcm,splsm")
        add("split", ["%s (char, string_view) [default limit]" % ret, "%s (string_view, string_view) [default limit]" % ret], "splc,spls,joinc,joins", "when limit = npos")
    for ret in ("std::vector<string_view>", "std::vector<string_view>& (into)"):
        add("split_view", ["%s (char, string_view, limit)" % ret, "%s (string_view, string_view, limit)" % ret,
                           "%s (char, string_view, min_fields, limit)" % ret, "%s (string_view, string_view, min_fields, limit)" % ret,
                           "%s (char, string_view) [default limit]" % ret, "%s (string_view, string_view) [default limit]" % ret], "splc,spls,splcm,splsm",
            "views materialised after a bounds check and compared with split(); needs fixes/C19/06,07")
    add("join", ["(char, const std::vector<std::string>&)", "(const char*, const std::vector<std::string>&)", "(string_view, const std::vector<std::string>&)"], "joinc,joins", "const char* on NUL-free glue")
    add("join (join_generic.hpp)", ["<Glue, Iterator>(glue, first, last) with Glue = char / string_view / std::string / const char*, list and vector iterators",
                                    "<Container>(char, const Container&) with std::list, std::deque", "<Container>(string_view, const Container&) with std::list, std::deque"], "joinc,joins")
    add("join_quoted", ["(const std::vector<std::string>&, char sep, char quote, char escape)", "(const std::vector<std::string>&) [defaults]"], "jq")
    add("split_quoted", ["(string_view, char sep, char quote, char escape)", "(string_view) [defaults]"], "jq,sq")
    add("replace_first", ["(std::string*, string_view, string_view)", "(std::string*, char, char)", "(string_view, string_view, string_view)", "(string_view, char, char)"], "rep1,rep1c")
    add("replace_all", ["(std::string*, string_view, string_view)", "(std::string*, char, char)", "(string_view, string_view, string_view)", "(string_view, char, char)"], "repa,repac")
    for fn in ("trim", "trim_left", "trim_right"):
        add(fn, ["(std::string*)", "(std::string*, string_view drop)", "(std::string*, char drop)", "(string_view*)", "(string_view*, string_view drop)",
                 "(string_view*, char drop)", "(string_view)", "(string_view, string_view drop)", "(string_view, char drop)"], "trim", "char overloads when |drop| = 1, default overloads when drop = \" \\r\\n\\t\"")
    add("starts_with / starts_with_icase", ["(string_view, string_view)"], "sw")
    add("ends_with / ends_with_icase", ["(const char*, const char*)", "(const char*, string_view)", "(string_view, const char*)", "(string_view, string_view)"], "sw", "const char* on NUL-free inputs")
    add("contains", ["(string_view, string_view)", "(string_view, char)"], "sw")
    add("to_lower / to_upper", ["(char)", "(std::string*)", "(string_view)"], "case")
    add("compare_icase", ["(const char*, const char*)", "(const char*, string_view)", "(string_view, const char*)", "(string_view, string_view)"], "cmp", "const char* on NUL-free inputs")
    add("equal_icase", ["(const char*, const char*)", "(const char*, string_view)", "(string_view, const char*)", "(string_view, string_view)"], "cmp", "needs fixes/C19/08")
    add("less_icase", ["(const char*, const char*)", "(const char*, string_view)", "(string_view, const char*)", "(string_view, string_view)", "less_icase_asc::operator()", "less_icase_desc::operator()"], "cmp", "needs fixes/C19/09")
    add("erase_all", ["(std::string*, char)", "(std::string*) [default drop]", "(std::string*, string_view)", "(string_view, char)", "(string_view) [default drop]", "(string_view, string_view)"], "era")
    add("pad", ["(string_view, size_t, char)", "(string_view, size_t) [default pad_char]"], "pad")
    add("levenshtein / levenshtein_icase", ["(const char*, const char*)", "(string_view, string_view)"], "lev", "const char* on NUL-free inputs")
    add("levenshtein_algorithm<Param>", ["custom Param (insert/delete 2, replace 3, coarser char_equal)"], "lev", "judged by the Python oracle only (weighted edit distance)")
    add("split_words / split_view-based helpers, escape_*, format_*, parse_*, word_wrap, ...", ["(other tlx/string files)"], None, "not named by the property")
    return T
API_SURFACE = _api()

# ---------------------------------------------------------------- run
corpus = [l.strip() for l in open(os.path.join(verif.VERIF, "corpus", "C19", "cases.txt")) if l.strip() and not l.startswith("#")]
rp = json.load(open(ck.replay)) if ck.replay else {}
if rp.get("case"):
    cases = [rp["case"]]
else:                       # normal run, or replay of a proof / translator failure (no single input): full case set
    cases = corpus + gen_cases(ck.thorough())
casefile = os.path.join(ck.scratch, "cases.txt")
open(casefile, "w").write("\n".join(cases) + "\n")

found = False
alias_obs = {}
stats = {}
distinct = set()
samples = []
exe, log = ck.build_cpp("c19_harness", ["harness/C19/string_harness.cpp"], repo_sources=REPO_SOURCES)
drv, dlog = ck.ocaml_driver("C19") if translator_error is None else (None, "translator failed")
impl = model = None
if exe is None:
    ck.violation("correspondence harness does not compile against /repo", {"correspondence": "harness/C19/string_harness.cpp", "log": log[-2000:]}, no_input=True)
else:
    rc1, out1 = verif.sh([exe, casefile], timeout=3000, env=dict(os.environ, ASAN_OPTIONS="detect_leaks=1"))
    impl = out1.splitlines()
    if rc1 != 0:
        # sanitizer report / abort: the crashing case is the first one without an output line
        found = True
        idx = 0
        while idx < len(impl) and idx < len(cases) - 1 and not (impl[idx].startswith("=") or "runtime error" in impl[idx] or "Sanitizer" in impl[idx]):
            idx += 1
        bad = None
        for k in range(max(0, idx - 2), min(len(cases), idx + 3)):
            one = os.path.join(ck.scratch, "one.txt"); open(one, "w").write(cases[k] + "\n")
            r, o = verif.sh([exe, one], timeout=60)
            if r != 0: bad = (cases[k], o); break
        ck.violation("real string function crashes under ASan/UBSan on a valid input" + (": " + bad[0] if bad else ""),
                     {"case": bad[0] if bad else cases[idx], "log_tail": (bad[1] if bad else out1)[-2500:]})
        impl = None
if impl is not None:
    if drv is not None:
        rc2, out2 = verif.sh([drv, casefile], timeout=3000)
        model = out2.splitlines()
    elif translator_error is None and (pr is None or pr["ok"]):
        # (when a proof file no longer compiles the Makefile cannot build the driver either: that case is
        #  reported through the property oracle below / ck.proof_broken, not as a driver problem)
        ck.violation("extracted model/driver does not build", {"correspondence": "ocaml/C19_driver.ml", "log": dlog[-2000:]}, no_input=True)
    for idx, c in enumerate(cases):
        a_full = impl[idx].strip() if idx < len(impl) else "<missing>"
        a, _, pyonly = a_full.partition(" ## ")        # " ## ..." = results judged by the Python oracle only (no Coq model)
        for tok in pyonly.split():
            if tok.startswith("aobs="):                  # in-place function, read-only argument a view INTO *str: recorded, not judged (see assumptions)
                o = alias_obs.setdefault(tok[5:], {"count": 0, "first_witness": c, "independent_result": a}); o["count"] += 1
        op = c.split()[0]; stats[op] = stats.get(op, 0) + 1
        if nontrivial(c, a): distinct.add(c)
        why = None
        try:
            why = oracle(c, a, fields(pyonly))
        except Exception as e:                      # malformed line = harness trouble, not a verdict
            why = "unreadable implementation result (%s): %s" % (e, a[:80])
        if why is not None:
            found = True
            ck.violation("%s  [case: %s]  impl: %s" % (why, c[:160], a[:200]), {"case": c, "impl": a, "why": why, "replay_cmd": "bin/check C19 --replay <this file>"})
            if ck.violations >= 6: break
            continue
        if model is not None:
            mfull = model[idx].strip() if idx < len(model) else "<missing>"
            b, _, extra = mfull.partition(" | ")
            if "MODEL-DIFFERS-FROM-SPEC" in extra or b.startswith("DRIVER-ERROR") or b == "?":
                ck.violation("model self-check failed: " + mfull[-100:], {"case": c, "model": mfull, "correspondence": "extracted model vs its Coq reference definition"}, no_input=True); break
            # the Coq reference definitions (RFC 4648 at bit level) are validated against Python's base64 / binascii
            ef = fields(extra)
            if op == "b64" and unhx(ef["rfc"]) != base64.b64encode(unhx(c.split()[1])):
                ck.violation("Coq rfc4648_base64 differs from Python base64.b64encode", {"case": c, "model": mfull, "correspondence": "Coq RFC 4648 reference vs Python base64"}, no_input=True); break
            if op == "hex" and (unhx(ef["rfcuc"]) != binascii.hexlify(unhx(c.split()[1])).upper() or unhx(ef["rfclc"]) != binascii.hexlify(unhx(c.split()[1]))):
                ck.violation("Coq rfc4648_base16 differs from Python binascii.hexlify", {"case": c, "model": mfull, "correspondence": "Coq RFC 4648 reference vs Python binascii"}, no_input=True); break
            if op in ("joinc", "joins") and c.split()[1] != "-" and ef.get("clean") != ("1" if clean_parts([unhx(x) for x in c.split()[3:3 + int(c.split()[2])]], unhx(c.split()[1])) or (op == "joinc" and False) else "0") and int(c.split()[2]) > 0:
                ck.violation("Coq cleanb (round-trip hypothesis) differs from the oracle's reading of it", {"case": c, "model": mfull, "correspondence": "Coq cleanb vs Python clean_parts"}, no_input=True); break
            if a != b:
                # the property does not decide this case (else the oracle had spoken): correspondence broken
                ck.violation("implementation differs from the extracted Coq model (property oracle silent): impl=%s model=%s [case: %s]" % (a[-120:], b[-120:], c[:120]),
                             {"case": c, "impl": a, "model": b, "correspondence": "ocaml/C19_driver.ml vs harness/C19/string_harness.cpp"}, no_input=True)
                if ck.violations >= 6: break
    pick = [0, len(corpus), len(corpus) + 200, len(cases) // 2, len(cases) - 1]
    samples = [{"case": cases[i], "result": impl[i]} for i in pick if i < len(impl) and i < len(cases)]

if translator_error is not None and not found:
    ck.violation("translator could not re-derive the tables from /repo: " + translator_error[:300],
                 {"theorem_or_correspondence": "translate/tables_c19.py", "detail": translator_error[-2000:]}, no_input=True)
if pr is not None and not pr["ok"]:
    ck.proof_broken(found)

ck.finish({
    "evaluations": len(cases),
    "distinct_nontrivial": len(distinct),
    "rule": "one case = one call group (e.g. encode + both decodes; join + split; all overloads of a helper) on the real functions under ASan/UBSan and on the extracted Coq model, compared line by line; the implementation's line is additionally judged by Python's base64/binascii/bytes methods (property oracle). non-trivial = non-empty input for codecs, >= 2 fields for split/join, result different from the input for the rewriting helpers, a positive answer for the predicates, two different non-empty strings for compare/levenshtein; distinct = distinct case text among those.",
    "samples": samples,
    "input_distribution": stats,
    "aliasing_modes": "every two- and three-argument function is additionally called with its arguments laid out as views of ONE exactly-sized heap buffer (adjacent / shared-first = same start or contained / shared-last = same end / overlap / the same range twice), C-string overloads with both strings ending at the same NUL (equal strings: the same pointer twice), join with the glue being (a view into) an element of the joined vector, results assigned back to the viewed string (s = trim(s), s = replace_all(s, ..), s = erase_all(s, ..)), and the in-place functions replace_first / trim_left / trim_right with their read-only arguments viewing *str; any difference from the independently allocated call is a violation (!ALIAS)",
    "huge_sizes": "case kind `huge`: views of 2^31-1, 2^31, 2^31+1, 2^32-1, 2^32, 2^32+1 bytes over one sparse MAP_NORESERVE mapping of zero bytes with a written head and tail; starts_with / ends_with (+ _icase, both argument orders, string_view and const char* match), compare_icase / equal_icase / less_icase (against a short string in both orders and against the view shifted by one byte; const char* forms for the short side), trim / trim_left / trim_right (copying, string_view*, char and default-set forms; positions and sizes of the resulting views) and pad (truncation to a short width). Judged by a direct Python definition on (head, tail, size). Model side = spec-level case kind: the extracted functions take byte lists, so the driver evaluates them on the two end windows (head + zeros, zeros + tail, longer than every other argument) and adds the sizes back; that the whole string gives the same answer follows from the prefix/suffix characterisations (C19_starts_ends_contains) and from the one-ended recursion of compare/equal/less_icase, trim_left/right and pad - stated, not separately proved. Not run on huge views: contains, split, replace, erase_all, to_lower/upper, levenshtein, hexdump, base64, join (they scan or allocate the whole view) and the const char* forms of the long argument (a C string of that length needs 4 GiB of non-zero bytes). huge cases unavailable (mmap failed): %d" % sum(1 for i, c in enumerate(cases) if c.startswith("huge") and impl is not None and i < len(impl) and impl[i].strip() == "unavailable"),
    "inplace_alias_observations": alias_obs,
    "documentation_gap_observations": doc_obs,     # calls outside what the property text covers (docs/audit/C19.md): run, counted, witnessed, not judged
    "api_surface": API_SURFACE,
    "api_surface_summary": "%d signatures listed, %d called by the harness" % (len(API_SURFACE), sum(1 for x in API_SURFACE if x["called_by_harness"])),
    "tables_translated": ["enc64[64]", "dec64[256]", "xdigits_uc[16]", "xdigits_lc[16]", "hexparse_hi[22]", "hexparse_lo[22]"],
}, assumptions=[
    "translator: regex/brace parse of the encoding64/decoding64/xdigits tables and the two switch statements of parse_hexdump",
    "std::string::find / find_first_not_of / find_last_not_of / std::search / std::equal modelled by their specification",
    "char is signed 8-bit, int/unsigned are 32-bit (to_lower / to_upper arithmetic)",
    "const char* overloads are exercised on NUL-free inputs only; string_view overloads on all byte strings",
    "every applicable overload / default-argument form is called on each case and must agree with the modelled one (flag !OVERLOAD); split_view results are compared with split after a bounds check of every view; hexdump_sourcecode is judged by the Python oracle only",
    "Python base64 / binascii / bytes.split / replace / strip / lower as the oracle for the documented semantics",
    "in-place replace_all(&s, ..), trim(&s, drop), erase_all(&s, drop) whose needle / instead / drop argument is a view INTO *s give other results than with independent arguments on HEAD (the view's content changes while *s is rewritten); the property quantifies over argument values of distinct objects, so these calls are run, counted and witnessed in coverage.inplace_alias_observations but not judged",
    "extraction: ExtrOcamlBasic only; N/nat/Z/list stay Coq inductives",
])
