#!/usr/bin/env python3
"""C07 — parallel multiway merge: Coq theorems about the executable model of parallel_multiway_merge.hpp /
multiway_merge_splitting.hpp (chunks partition, windows disjoint + cover, values = firstn size of the stable
merge, cursors exact, one writer per position) + correspondence of the extracted model with the four real
entry points (real threads, logging output iterator, ASan/UBSan; TSan in the thorough tier)."""
import json, os, sys
HERE = os.path.dirname(os.path.abspath(__file__))
sys.path.insert(0, os.path.join(HERE, "..", "lib"))
import verif

ck = verif.Check("C07")
rng = ck.rng
pr = ck.prove()

REPO_SRC = ["tlx/algorithm/parallel_multiway_merge.cpp"]

# ------------------------------------------------------------------------------------------------ cases
def mk(entry, split, p, os_, mwma, fseq, fpar, mink, minn, size, seqs):
    return "%d %d %d %d %d %d %d %d %d %d %d " % (entry, split, p, os_, mwma, fseq, fpar, mink, minn, size, len(seqs)) + \
        " ".join(" ".join(map(str, [len(s)] + s)) for s in seqs)

def parse(line):
    t = list(map(int, line.split()))
    entry, split, p, os_, mwma, fseq, fpar, mink, minn, size, k = t[:11]
    kind, layout, profile, mwma = mwma // 1000, (mwma // 100) % 10, (mwma // 10) % 10, mwma % 10
    seqs = []; i = 11
    for _ in range(k):
        n = t[i]; seqs.append(t[i + 1:i + 1 + n]); i += 1 + n
    return dict(entry=entry, split=split, p=p, os=os_, mwma=mwma, profile=profile, layout=layout, kind=kind, fseq=fseq, fpar=fpar, mink=mink, minn=minn,
                size=size, seqs=seqs, total=sum(map(len, seqs)), stable=entry in (1, 3))

def goes_parallel(c):
    if not c["seqs"]: return False
    return (not c["fseq"]) and (c["fpar"] or (c["p"] > 1 and len(c["seqs"]) >= c["mink"] and c["size"] >= c["minn"]))

def gen_seqs(rng, k, maxlen, universe, shape):
    seqs = []
    for s in range(k):
        if shape == 1 and rng.chance(1, 3): n = 0                      # empties anywhere
        elif shape == 2: n = rng.choice([0, 1, 1, 2, maxlen])          # very unequal
        else: n = rng.below(maxlen + 1)
        if shape == 3: base = s * 3                                    # nearly disjoint ranges
        else: base = 0
        seqs.append(sorted(base + rng.below(universe) for _ in range(n)))
    return seqs

P_ALL = list(range(1, 33))
OS_VALUES = [1, 2, 10, 10, 3, 7]

def gen_small_block(rng, out, nsizes_all=True):
    """one small input, every size 0..total, several thread counts, both splittings"""
    k = rng.choice([1, 2, 2, 3, 3, 4, 4, 5, 6])
    seqs = gen_seqs(rng, k, rng.choice([2, 3, 5, 7]), rng.choice([1, 2, 3, 3, 6]), rng.below(4))
    total = sum(map(len, seqs))
    ps = sorted(set([1, 2, 3, rng.range(1, 8), max(1, total - 1), total, total + 1, rng.choice(P_ALL), 32]))
    ps = [p for p in ps if 1 <= p <= 32]
    for size in range(total + 1):
        for p in (ps if nsizes_all else [rng.choice(ps)]):
            entry = rng.below(4); mwma = rng.below(4)
            out.append(mk(entry, 1, p, rng.choice(OS_VALUES), mwma, 0, 1, 2, 1000, size, seqs))
            if size == total:
                for os_ in (1, 2, 10):
                    out.append(mk(rng.below(4), 0, p, os_, rng.below(4), 0, 1, 2, 1000, size, seqs))
            else:                                                     # MWMSA_SAMPLING on a proper prefix (served by the exact splitter)
                out.append(mk(rng.below(4), 0, p, rng.choice(OS_VALUES), rng.below(4), 0, 1, 2, 1000, size, seqs))

def gen_random(rng, out, big):
    k = rng.range(1, 9 if big else 6)
    maxlen = rng.choice([20, 60, 200] if big else [8, 15, 30])
    seqs = gen_seqs(rng, k, maxlen, rng.choice([1, 2, 4, 16, 1000]), rng.below(4))
    total = sum(map(len, seqs))
    p = rng.choice(P_ALL)
    split = rng.below(2)
    if split == 0 and rng.chance(1, 2): size = total
    else: size = rng.choice([total, total, rng.range(0, total), max(0, total - 1), min(total, p - 1), min(total, p), min(total, p + 1)])
    out.append(mk(rng.below(4), split, p, rng.choice(OS_VALUES), rng.below(4), 0, 1, 2, 1000, size, seqs))

def gen_switch(rng, out):
    k = rng.range(1, 5)
    seqs = gen_seqs(rng, k, 8, rng.choice([2, 4, 50]), rng.below(3))
    total = sum(map(len, seqs))
    size = rng.range(0, total)
    mink = max(0, k + rng.range(-1, 1)); minn = max(0, size + rng.range(-1, 1))
    p = rng.choice([1, 1, 2, 3, 32])
    fseq = 1 if rng.chance(1, 6) else 0
    fpar = 1 if rng.chance(1, 6) else 0
    split = rng.below(2)
    out.append(mk(rng.below(4), split, p, rng.choice(OS_VALUES), rng.below(4), fseq, fpar, mink, minn, size, seqs))

SAN_FLAGS = ["-std=c++17", "-O1", "-g1", "-fsanitize=address,undefined", "-fno-sanitize-recover=all", "-fno-omit-frame-pointer"]
# two binaries of the same harness, built concurrently: 12-byte element (copy-based loser trees) and -DC07_FAT
# (40-byte element owning its key on the heap, destructor poisons it: pointer-based loser trees)
import concurrent.futures
TSAN_FLAGS = ["-std=c++17", "-O1", "-g1", "-fsanitize=thread", "-DNDEBUG"]
with concurrent.futures.ThreadPoolExecutor(3) as _ex:
    _f1 = _ex.submit(ck.build_cpp, "c07_harness", ["harness/C07/pmwm_harness.cpp"], SAN_FLAGS, REPO_SRC)
    _f2 = _ex.submit(ck.build_cpp, "c07_harness_fat", ["harness/C07/pmwm_harness.cpp"], SAN_FLAGS + ["-DC07_FAT"], REPO_SRC)
    _f3 = _ex.submit(ck.build_cpp, "c07_tsan", ["harness/C07/pmwm_harness.cpp"], TSAN_FLAGS, REPO_SRC)
    exe, log = _f1.result(); exe_fat, log_fat = _f2.result(); texe, tlog = _f3.result()
if exe is not None and exe_fat is None:
    exe, log = None, log_fat
drv, dlog = ck.ocaml_driver("C07")
HW = 1
if exe is not None:
    _rc, _o = verif.sh([exe, "--hw"], timeout=20)
    try: HW = max(1, int(_o.strip()))
    except ValueError: HW = 1

PROFILE_NAMES = {0: "vector<pair>::iterator / Elem* / logging output / key-only less, all arguments explicit",
                 1: "pair* / vector<Elem>::iterator / Elem* output",
                 2: "deque<pair>::iterator / deque<Elem>::iterator / vector<Elem>::iterator output / key-only greater on descending inputs",
                 3: "stateful non-default-constructible counting comparator",
                 4: "comp, mwma, mwmsa and num_threads defaulted",
                 5: "num_threads defaulted",
                 6: "parallel_multiway_merge_base<Stable> called directly"}

def assign_profile(rng, line):
    """choose the API profile of a generated case (harness/C07/pmwm_harness.cpp): field mwma = profile*10 + MWMA"""
    r = rng.below(100)
    prof = 0 if r < 40 else 1 + (r - 40) // 10        # 1..6
    layout = rng.below(2)              # memory regime of the inputs (non-sentinel entry points)
    kind = 1 if rng.chance(1, 4) else 0   # 1 = fat element binary
    t = line.split()
    t[4] = str(kind * 1000 + layout * 100 + int(t[4]) % 10)
    if prof == 0: return " ".join(t)
    if prof == 4:                      # everything defaulted: MWMA_ALGORITHM_DEFAULT = LOSER_TREE_COMBINED, MWMSA_DEFAULT = EXACT, hardware_concurrency()
        t[1] = "1"; t[2] = str(HW); t[4] = "1"
    elif prof == 5:
        t[2] = str(HW)
    elif prof == 6:                    # direct call of parallel_multiway_merge_base<Stable>: no switches, no sentinel variant
        t[0] = str(int(t[0]) % 2); t[5] = "0"; t[6] = "1"
    t[4] = str(int(t[4]) + prof * 10)
    return " ".join(t)

def gen_default_switches(rng, out, n_cases):
    """the shipped defaults of the switches (force flags off, minimal_k = 2, minimal_n = 1000): size just below / at /
    above 1000, k = 1 / 2 / 3, num_threads 1 / 2 / 4 -> both sides of the default heuristic"""
    for _ in range(n_cases):
        k = rng.choice([1, 2, 2, 3])
        seqs = [sorted(rng.below(rng.choice([5, 2000])) for _ in range(rng.range(1001 // k + 1, 1300 // k + 40))) for _ in range(k)]
        total = sum(map(len, seqs))
        size = min(total, rng.choice([999, 1000, 1001, total]))
        out.append(mk(rng.below(4), rng.below(2), rng.choice([1, 2, 4]), rng.choice(OS_VALUES), rng.below(4), 0, 0, 2, 1000, size, seqs))

def gen_huge(rng, out, n_cases, n_large):
    """HUGE TOTALS: k = 1..4 sequences whose lengths sum to 2^31, 2^31+r, 2^32, 2^32+size, 2.8e9, ... (sparse uint8_t
    mappings in the harness), of which a prefix of size <= 2000 is merged by 1..4 threads through all four entry points with
    both splitting requests.  Each entry: (harness line, model line on the sequences truncated to their first `size`
    elements, truncated sequences, lengths).  An element beyond position `size` of a sequence cannot be among the first
    `size` elements of the merge, so the truncated input has the same first `size` merged elements and the same cursors."""
    for n in range(n_cases):
        size = rng.range(200, 2000) if n < n_large else rng.choice([0, 1, 2, 3, 5, rng.range(4, 60), rng.range(4, 60)])
        k = rng.range(1, 4)
        T = rng.choice([2**31, 2**31 + rng.range(1, 5000), 2**32, 2**32 + size, 2**32 + size, 2800000000, 2**31 - 1, 2**32 - 1, 2**32 + 2**31 + 7])
        shape = rng.below(3)
        if k == 1: lens = [T]
        elif shape == 0:                      # one huge sequence, the others short (also empty, also shorter than size)
            rest = [rng.choice([0, 1, rng.range(0, size + 50), rng.range(0, 40)]) for _ in range(k - 1)]
            lens = rest + [T - sum(rest)]
            j = rng.below(k); lens[j], lens[-1] = lens[-1], lens[j]
        elif shape == 1:                      # equal parts
            lens = [T // k] * k; lens[0] += T - sum(lens)
        else:                                 # two huge ones
            a = T // 2 + rng.range(-1000, 1000)
            lens = [a, T - a] + [rng.range(0, 30) for _ in range(k - 2)]
        universe = rng.choice([1, 2, 5, 50, 254])
        heads = []
        for L in lens:
            h = min(L, rng.choice([0, size // 2, size, size + 20, rng.range(0, size + 20)]))
            heads.append(sorted(rng.below(universe) for _ in range(h)))
        entry = rng.below(4); split = rng.below(2); p = rng.range(1, 4); os_ = rng.choice(OS_VALUES); mwma = rng.below(4)
        hline = "huge %d %d %d %d %d %d %d " % (entry, split, p, os_, mwma, size, k) + \
            " ".join("%d %d%s" % (L, len(h), "".join(" %d" % x for x in h)) for L, h in zip(lens, heads))
        trunc = [(h + [255] * (min(L, size) - len(h)))[:min(L, size)] for L, h in zip(lens, heads)]
        mline = mk(entry, split, p, os_, mwma, 0, 1, 2, 1000, size, trunc)
        out.append((hline, mline, trunc, lens))

def gen_tsan_sweep(rng, out):
    """ThreadSanitizer sweep (every tier): k = 1..6 non-empty sequences x every MultiwayMergeAlgorithm x both splitting
    requests x stable/unstable x three thread counts out of 2..8 (288 cases); no chunk is empty for the small thread counts"""
    for k in range(1, 7):
        for mwma in range(4):
            for split in (0, 1):
                for stable in (0, 1):
                    for p in sorted(set([rng.range(2, 4), rng.range(4, 6), rng.range(6, 8)])):
                        seqs = [sorted(rng.below(rng.choice([4, 60])) for _ in range(rng.range(8, 22))) for _ in range(k)]
                        total = sum(map(len, seqs))
                        size = total if rng.chance(3, 4) else rng.range(total // 2, total)
                        entry = stable + 2 * rng.below(2)
                        out.append(mk(entry, split, p, rng.choice(OS_VALUES), rng.below(2) * 100 + mwma, 0, 1, 2, 1000, size, seqs))

def gen_algo_sweep(rng, out):
    """every MultiwayMergeAlgorithm value x k = 2..9 x non-sentinel entry points x both memory regimes x both element
    kinds, no empty sequence (so the unguarded phases run), thread counts that leave no chunk empty"""
    for k in range(2, 10):
        for mwma in range(4):
            for entry in (0, 1):
                for layout in (0, 1):
                    for kind in (0, 1):
                        seqs = [sorted(rng.below(rng.choice([4, 40])) for _ in range(rng.range(6, 18))) for _ in range(k)]
                        total = sum(map(len, seqs))
                        p = rng.choice([1, 1, 2, 3, 5])
                        size = total if rng.chance(2, 3) else rng.range(total // 2, total)
                        prof = rng.choice([0, 0, 1, 3])
                        out.append(mk(entry, rng.below(2), p, rng.choice(OS_VALUES), kind * 1000 + layout * 100 + prof * 10 + mwma,
                                      0, 1, 2, 1000, size, seqs))

def gen_ms(rng, out, n_cases):
    """(stable_)parallel_mergesort (its per-thread merges are the same kernels): thread counts incl. 5,6,7,9"""
    for _ in range(n_cases):
        n = rng.choice([0, 1, 2, 7, rng.range(3, 60), rng.range(60, 400), rng.range(100, 700)])
        keys = [rng.below(rng.choice([3, 50, 1000])) for _ in range(n)]
        out.append((1 if rng.chance(1, 3) else 0,
                    "ms %d %d %d %d %d %s" % (rng.below(2), rng.choice([1, 2, 3, 4, 5, 5, 6, 7, 7, 8, 9, 13]), rng.below(2), rng.choice(OS_VALUES), n,
                                              " ".join(map(str, keys)))))

corpus = [l.strip() for l in open(os.path.join(verif.VERIF, "corpus", "C07", "cases.txt")) if l.strip() and not l.startswith("#")]
cases = list(corpus)
if ck.replay:
    cases = [json.load(open(ck.replay))["case"]]
else:
    nblocks, nrand, nbig, nsw = (260, 6000, 1500, 4000) if ck.thorough() else (48, 1700, 200, 1400)
    for _ in range(nblocks): gen_small_block(rng, cases)
    for _ in range(nrand): gen_random(rng, cases, False)
    for _ in range(nbig): gen_random(rng, cases, True)
    for _ in range(nsw): gen_switch(rng, cases)
    cases = cases[:len(corpus)] + [assign_profile(rng, l) for l in cases[len(corpus):]]
    gen_algo_sweep(rng, cases)
    gen_default_switches(rng, cases, 40 if ck.thorough() else 5)
ms_cases = []
huge_cases = []
if not ck.replay:
    gen_ms(rng, ms_cases, 600 if ck.thorough() else 160)
    gen_huge(rng, huge_cases, 700 if ck.thorough() else 130, 30 if ck.thorough() else 2)
elif cases and cases[0].startswith("huge "):
    # replay of a huge-totals case: "huge ..." line; rebuild the truncated model input from it
    t = cases[0].split(); size_h, k_h = int(t[6]), int(t[7]); i = 8; tr = []; ln = []
    for _ in range(k_h):
        L, h = int(t[i]), int(t[i + 1]); hd = list(map(int, t[i + 2:i + 2 + h])); i += 2 + h
        ln.append(L); tr.append((hd + [255] * (min(L, size_h) - len(hd)))[:min(L, size_h)])
    huge_cases.append((cases[0], mk(int(t[1]), int(t[2]), int(t[3]), int(t[4]), int(t[5]), 0, 1, 2, 1000, size_h, tr), tr, ln))
    cases = []
elif cases and cases[0].startswith("ms "):
    ms_cases = [(0, cases[0]), (1, cases[0])]      # replay of a parallel_mergesort line: both element kinds
    cases = []

parsed = [parse(c) for c in cases]
main_idx = list(range(len(parsed)))


API_SURFACE = [
 {"api": "tlx::parallel_multiway_merge / stable_parallel_multiway_merge / parallel_multiway_merge_sentinels / stable_parallel_multiway_merge_sentinels (seqs_begin, seqs_end, target, size, comp, mwma, mwmsa, num_threads), all arguments explicit", "called": True, "by": "profiles 0-3, every case draws the entry point at random"},
 {"api": "the same four with num_threads defaulted (std::thread::hardware_concurrency(), read from the harness with --hw and written into the case so that the model uses the same p)", "called": True, "by": "profile 5"},
 {"api": "the same four with comp, mwma, mwmsa and num_threads defaulted (std::less<value_type> via operator<, MWMA_ALGORITHM_DEFAULT, MWMSA_DEFAULT = MWMSA_EXACT)", "called": True, "by": "profile 4"},
 {"api": "tlx::parallel_multiway_merge_base<Stable> called directly, both Stable values (no switches, k = 0 allowed)", "called": True, "by": "profile 6"},
 {"api": "multiway_merge_sampling_splitting<Stable> / multiway_merge_exact_splitting<Stable> / multiway_merge_detail::equally_split", "called": True, "by": "through mwmsa = MWMSA_SAMPLING (size = total) / MWMSA_EXACT and MWMSA_SAMPLING with size < total; equally_split with size < p, size = 0, size = p-1, p, p+1; not called directly (their chunks argument is the base routine's private vector)"},
 {"api": "MultiwayMergeSplittingAlgorithm: MWMSA_SAMPLING | MWMSA_EXACT | MWMSA_DEFAULT (MWMSA_LAST is an enum end marker)", "called": True, "by": "field split = 0 | 1 | profile 4"},
 {"api": "MultiwayMergeAlgorithm passed through to the per-thread merges: MWMA_LOSER_TREE | _COMBINED | _SENTINEL | MWMA_BUBBLE | default", "called": True, "by": "field mwma drawn at random in every case | profile 4"},
 {"api": "num_threads argument: 1..32 incl. 1, > number of elements, > size; 0 is outside the documented domain (chunks[num_threads-1])", "called": True, "by": "all generators (p in {1,2,3,total-1,total,total+1,32,random 1..32})"},
 {"api": "global switch parallel_multiway_merge_force_sequential (true/false, also together with force_parallel)", "called": True, "by": "gen_switch"},
 {"api": "global switch parallel_multiway_merge_force_parallel", "called": True, "by": "all forced-parallel cases; gen_switch with it off"},
 {"api": "global parallel_multiway_merge_minimal_k: k-1, k, k+1 around the number of sequences", "called": True, "by": "gen_switch"},
 {"api": "global parallel_multiway_merge_minimal_n: size-1, size, size+1", "called": True, "by": "gen_switch"},
 {"api": "global parallel_multiway_merge_oversampling: 1, 2, 3, 7, 10 (default); 0 is not generated: with sampling splitting and >= 2 threads it reads samples[0] of an empty vector (null dereference, docs/audit/C07.md)", "called": True, "by": "field os in every case"},
 {"api": "the shipped defaults of the switches (force flags off, minimal_k = 2, minimal_n = 1000) with size 999 / 1000 / 1001 / total and k = 1,2,3, num_threads 1,2,4", "called": True, "by": "gen_default_switches"},
 {"api": "sequence-of-pairs iterator: std::vector<pair>::iterator | pair* | std::deque<pair>::iterator (must be mutable: .first is advanced in place)", "called": True, "by": "profiles 0,3,4,5 | 1 | 2"},
 {"api": "element iterators: raw pointer | std::vector<T>::iterator | std::deque<T>::iterator", "called": True, "by": "profiles 0,3,4,5 | 1 | 2"},
 {"api": "output iterator (must be random access: target + target_position): logging random-access iterator class with proxy reference | T* | std::vector<T>::iterator", "called": True, "by": "profiles 0,3,4,5 | 1 | 2 (plain outputs: guard zones of 8 elements on both sides, windows not observable)"},
 {"api": "DiffType = difference_type of the element iterators: std::ptrdiff_t", "called": True, "by": "all profiles"},
 {"api": "DiffType other than std::ptrdiff_t (element iterator class with difference_type int)", "called": False, "by": "does not compile, with or without a matching pair iterator: the per-thread call hands std::vector<pair>::iterator to multiway_merge_4_combined, which mixes both difference_types in std::min(size, total_size - overhang) (multiway_merge.hpp:677); compile-time limitation, nothing to run"},
 {"api": "comparator: key-only less (function object) | key-only greater on descending inputs | stateful non-default-constructible counting comparator | defaulted std::less<T>", "called": True, "by": "profiles 0,1,5 | 2 | 3 | 4"},
 {"api": "element type: 12-byte trivially copyable record (key, sequence, position; copy-based loser trees) | 40-byte record > 2*sizeof(size_t) (pointer-based loser trees) that owns its key in a heap cell and whose destructor overwrites the key with INT_MIN and frees it (a comparison with a dead element is an ASan heap-use-after-free); its move constructor / move assignment leave the source in an observable moved-from state (key INT_MIN, sequence tag MOVED); both compared by key only, so that stability and element identity are observable", "called": True, "by": "two binaries of the same harness (default | -DC07_FAT), all profiles; about a quarter of the generated cases and half of the algorithm sweep use the fat element"},
 {"api": "memory regime of the inputs: *_sentinels entry points: every sequence in its own heap block followed by its sentinel | other entry points, NO sentinel: every sequence in its own exactly sized heap block (overrun = ASan heap-buffer-overflow) | all sequences adjacent in one exactly sized buffer (overrun reads the next sequence: wrong output)", "called": True, "by": "entry >= 2 | layout 0 | layout 1 (drawn per case)"},
 {"api": "every MultiwayMergeAlgorithm value (MWMA_LOSER_TREE, _COMBINED, _SENTINEL, MWMA_BUBBLE) x k = 2..9 non-empty sequences x non-sentinel entry points (parallel_multiway_merge, stable_parallel_multiway_merge) x both memory regimes x both element kinds, thread counts 1,2,3,5 leaving no chunk empty (unguarded phases run)", "called": True, "by": "gen_algo_sweep on every run (256 cases); counted per (mwma, k) in input_distribution"},
 {"api": "tlx::parallel_mergesort / stable_parallel_mergesort (comp, num_threads 1..9,13, MWMSA_SAMPLING | MWMSA_EXACT; no merge-algorithm parameter exists: the per-thread merges use MWMA_ALGORITHM_DEFAULT) as a second consumer of the same merge kernels, both element kinds", "called": True, "by": "gen_ms ('ms' lines), judged against the (stable) sort by the Python reference; C06 owns the property"},
 {"api": "OpenMP variant of parallel_multiway_merge_base (#if defined(_OPENMP))", "called": False, "by": "the check builds without -fopenmp, as the repo's default build does; the std::thread variant is the one exercised (the two bodies are textually the same computation)"},
 {"api": "HUGE TOTALS: k = 1..4 sequences of uint8_t in sparse MAP_NORESERVE mappings whose lengths sum to 2^31-1, 2^31, 2^31+r, 2^32-1, 2^32, 2^32+size, 2.8e9, 2^32+2^31+7 (one huge + short/empty ones | equal parts | two huge), std::greater on descending data, prefix of size 0..2000, 1..4 threads, all four entry points, both splitting requests (MWMSA_SAMPLING is served by the exact splitter for a prefix), all merge algorithms", "called": True, "by": "gen_huge ('huge' lines, 12-byte binary only); judged by the Python reference and against the Coq model run on the sequences truncated to their first `size` elements (an element beyond position `size` of a sequence cannot be among the first `size` merged elements; the truncation argument itself is not a Coq theorem)"},
 {"api": "ThreadSanitizer build (-fsanitize=thread -DNDEBUG) of the same harness, every tier: k = 1..6 non-empty sequences x every MultiwayMergeAlgorithm x both splitting requests x stable/unstable (sentinel and non-sentinel entry points) x three thread counts from 2..8; thorough tier additionally the first 6000 generated parallel cases", "called": True, "by": "gen_tsan_sweep (264..288 cases); every TSan report is a VIOLATION with the running case as replay"},
 {"api": "inputs are not modified: after every call the not yet consumed part of every input sequence is compared with what the case stored (w=inputmod@seq:index), and no output element may be in a moved-from state (w=movedout@pos); observable through the fat element's poisoning move operations, exercised through MWMSA_SAMPLING with size = total on all four entry points and all profiles", "called": True, "by": "every case of both binaries"},
 {"api": "regimes: no sequences | all sequences empty | empty sequences between non-empty ones | size = 0 | size < p | p > total | one long among short sequences | heavy duplicates across split points (1..3 distinct keys)", "called": True, "by": "corpus + generator shapes 0-3"},
]

# ------------------------------------------------------------------------------------------------ property verdict
def fields(line):
    d = {}
    for tok in line.split():
        if "=" in tok:
            a, b = tok.split("=", 1); d[a] = b
    return d

def triples(s):
    return [tuple(map(int, x.split(":"))) for x in s.split(",")] if s else []

def property_verdict(c, f):
    """None if the implementation's observable result satisfies the property text, else a description."""
    allel = sorted((key, s, i) for s, q in enumerate(c["seqs"]) for i, key in enumerate(q))
    size = c["size"]
    exp = allel[:size]
    out = triples(f.get("out", ""))
    if f.get("w") != "ok": return "output positions not written exactly once (%s)" % f.get("w")
    if int(f.get("ret", -1)) != size: return "returned end %s, expected %d" % (f.get("ret"), size)
    cur = list(map(int, f["cur"].split(","))) if f.get("cur") else []
    if len(cur) != len(c["seqs"]) or any(x < 0 or x > len(q) for x, q in zip(cur, c["seqs"])):
        return "cursor outside its sequence (%s)" % f.get("cur")
    if c["stable"]:
        if out != exp: return "output differs from the stable merge"
        want = [sum(1 for e in exp if e[1] == s) for s in range(len(c["seqs"]))]
        if cur != want: return "inputs advanced to %s, contributed %s" % (cur, want)
    else:
        if [e[0] for e in out] != [e[0] for e in exp]: return "output values differ from the sequential merge"
        consumed = sorted((key, s, i) for s, q in enumerate(c["seqs"]) for i, key in enumerate(q[:cur[s]]))
        if sorted(out) != consumed:
            return "inputs advanced to %s but the elements written are not exactly the elements passed" % cur
    return None

def g_windows(m):
    return fields(m).get("win", "").count("+")

def compare_model(c, f, m):
    """None if impl and model agree on what the model fixes."""
    if m.strip() == "UB": return "model reaches undefined behaviour (negative chunk / merge length)"
    g = fields(m)
    if f.get("ret") != g.get("ret"): return "ret impl=%s model=%s" % (f.get("ret"), g.get("ret"))
    if f.get("w") != g.get("w"): return "writers impl=%s model=%s" % (f.get("w"), g.get("w"))
    par = goes_parallel(c)
    if c["stable"]:
        if f.get("out") != g.get("out"): return "output impl=%s model=%s" % (f.get("out", "")[:80], g.get("out", "")[:80])
    else:
        if [e[0] for e in triples(f.get("out", ""))] != [e[0] for e in triples(g.get("out", ""))]: return "output keys differ"
    if (c["stable"] or par) and f.get("cur") != g.get("cur"): return "cursors impl=%s model=%s" % (f.get("cur"), g.get("cur"))
    if par and (f.get("fp") == "0" or c["split"] == 1 or c["size"] < c["total"]) and f.get("win") != "?" and f.get("win") != g.get("win"): return "thread windows impl=%s model=%s" % (f.get("win"), g.get("win"))
    return None

# ------------------------------------------------------------------------------------------------ run
found = False
stats = {"corpus": len(corpus), "exact": 0, "sampling": 0, "sequential_fallback": 0, "sampling_requested_prefix": 0, "size_lt_total": 0, "size_0": 0,
         "p_gt_total": 0, "stable": 0, "unstable": 0, "fp_rounding_cases": 0}
distinct = set()
samples = []
evaluations = 0
tsan_note = "not run"


def run_file(binary, lines, timeout):
    import threading
    fn = os.path.join(ck.scratch, "cases_%s_%d_%d.txt" % (os.path.basename(binary), threading.get_ident(), len(lines)))
    open(fn, "w").write("\n".join(lines) + "\n")
    return verif.sh([binary, fn], timeout=timeout, env=dict(os.environ, ASAN_OPTIONS="detect_leaks=1"))

if exe is None:
    ck.violation("correspondence harness does not compile against /repo", {"correspondence": "harness/C07/pmwm_harness.cpp", "log": log[-2000:]}, no_input=True)
elif drv is None:
    ck.violation("extracted model/driver does not build", {"correspondence": "ocaml/C07_driver.ml", "log": dlog[-2000:]}, no_input=True)
else:
    # --- everything else
    todo = [cases[i] for i in main_idx]; tp = [parsed[i] for i in main_idx]
    rc2, out2 = run_file(drv, todo, 3000)
    model = out2.splitlines()
    if rc2 != 0 or len(model) != len(todo):
        ck.violation("extracted model driver failed", {"correspondence": "ocaml/C07_driver.ml", "log": out2[-1500:]}, no_input=True)
    else:
        def run_impl(binary, lines, prefix):
            """outputs in order; 'CRASH' for a crashing / hanging case (reported), None for cases not run"""
            global found
            res = []; start = 0; crashes = 0; BATCH = 400
            while start < len(lines) and crashes < 3:
                batch = lines[start:start + BATCH]
                rc1, out1 = run_file(binary, batch, 90)
                got = [l for l in out1.splitlines() if l.startswith(prefix) or l == "BAD-CASE"]
                if rc1 == 0 and len(got) == len(batch):
                    res += got; start += len(batch); continue
                got = got[:len(batch)]
                res += got
                bad = start + len(got)
                if bad >= len(lines): break
                r, o = run_file(binary, [lines[bad]], 20)
                found = True; crashes += 1
                if r == 0:
                    ck.violation("real parallel merge harness failed in a batch (rc=%d) but not on the single case" % rc1,
                                 {"case": lines[bad], "log_tail": out1[-2500:]})
                else:
                    ck.violation("real %s %s on a valid input" % ("parallel_mergesort" if prefix == "ms " else "parallel_multiway_merge",
                                                                  "does not terminate" if r == 124 else "crashes under ASan/UBSan"),
                                 {"case": lines[bad], "log_tail": o[-2500:]})
                res.append("CRASH")
                start = bad + 1
            return res + [None] * (len(lines) - len(res))
        ix = [[i for i, c in enumerate(tp) if c["kind"] == kd] for kd in (0, 1)]
        msx = [[i for i, (kd, _) in enumerate(ms_cases) if kd == k2] for k2 in (0, 1)]
        with concurrent.futures.ThreadPoolExecutor(2) as ex:
            fut = [ex.submit(run_impl, b, [todo[i] for i in ix[kd]], "ret=") for kd, b in ((0, exe), (1, exe_fat))]
            r0, r1 = fut[0].result(), fut[1].result()
        impl = [None] * len(todo)
        for kd, rr in ((0, r0), (1, r1)):
            for i, v in zip(ix[kd], rr): impl[i] = v
        # parallel_mergesort runs: judged against the property of a (stable) sort by the Python reference
        ms_stats = {"ms_cases": 0, "ms_fat": 0}
        for kd, b in ((0, exe), (1, exe_fat)):
            lines = [ms_cases[i][1] for i in msx[kd]]
            outs = run_impl(b, lines, "ms ") if lines else []
            for l, o in zip(lines, outs):
                if o is None or o == "CRASH": continue
                ms_stats["ms_cases"] += 1; ms_stats["ms_fat"] += kd; evaluations += 1
                t = l.split(); stable_ms = t[1] == "1"; keys = list(map(int, t[6:]))
                got = triples(o[len("ms out="):])
                want = sorted((kk, 0, i) for i, kk in enumerate(keys))
                bad = (got != want) if stable_ms else ([g[0] for g in got] != [w[0] for w in want] or sorted(got) != want)
                if bad:
                    found = True
                    ck.violation("(stable_)parallel_mergesort result is not the %s" % ("stable sort" if stable_ms else "sorted permutation"),
                                 {"case": l, "impl": o[:600]})
                    break
        stats.update(ms_stats)
        # huge totals: implementation on the sparse huge sequences vs the model on the sequences truncated to `size` elements
        if huge_cases:
            hl = [h[0] for h in huge_cases]; ml = [h[1] for h in huge_cases]
            rcm, outm = run_file(drv, ml, 3000)
            hm = outm.splitlines()
            hi = run_impl(exe, hl, "ret=")
            stats["huge_totals"] = 0; stats["huge_total_ge_2^32"] = 0
            if rcm != 0 or len(hm) != len(ml):
                ck.violation("extracted model driver failed on the huge-totals family", {"correspondence": "ocaml/C07_driver.ml", "log": outm[-1500:]}, no_input=True)
            else:
                for (hline, mline, trunc, lens), o, m in zip(huge_cases, hi, hm):
                    if o is None or o == "CRASH": continue
                    evaluations += 1; stats["huge_totals"] += 1
                    if sum(lens) >= 2**32: stats["huge_total_ge_2^32"] += 1
                    c = parse(mline); f = fields(o); size = c["size"]
                    exp = sorted((key, s_, i_) for s_, q in enumerate(trunc) for i_, key in enumerate(q))[:size]
                    okeys = [e[0] for e in triples(f.get("out", ""))]
                    cur = list(map(int, f["cur"].split(","))) if f.get("cur") else []
                    v = None
                    if f.get("w") != "ok": v = "writes outside the output window (%s)" % f.get("w")
                    elif int(f.get("ret", -1)) != size: v = "returned end %s, expected %d" % (f.get("ret"), size)
                    elif len(cur) != len(lens) or any(x < 0 or x > L for x, L in zip(cur, lens)): v = "cursor outside its sequence (%s)" % f.get("cur")
                    elif okeys != [e[0] for e in exp]: v = "output values differ from the sequential merge"
                    elif sum(cur) != size or any(x > len(q) for x, q in zip(cur, trunc)): v = "inputs advanced to %s, %d elements written" % (cur, size)
                    elif sorted(key for x, q in zip(cur, trunc) for key in q[:x]) != sorted(okeys): v = "inputs advanced to %s but the elements written are not the elements passed" % cur
                    elif c["stable"] and cur != [sum(1 for e in exp if e[1] == s_) for s_ in range(len(lens))]: v = "stable variant advanced the inputs to %s" % cur
                    if v is not None:
                        found = True
                        ck.violation("huge totals (%d elements in total, prefix of %d merged): %s" % (sum(lens), size, v), {"case": hline, "impl": o[:600]})
                        break
                    g = fields(m)
                    if m.strip() == "UB" or f.get("ret") != g.get("ret") or f.get("cur") != g.get("cur") or okeys != [e[0] for e in triples(g.get("out", ""))]:
                        ck.violation("huge totals: implementation satisfies the property but differs from the Coq model run on the sequences truncated to their first `size` elements",
                                     {"case": hline, "impl": o[:600], "model": m[:600], "correspondence": "C07/PMWM.v run_model on truncated inputs"}, no_input=True)
                        break
                    if sum(lens) >= 2**31 and size > 0: distinct.add(hline)
            samples.append({"case": huge_cases[0][0][:300], "impl": str(hi[0])[:200] if hi else None})
        for idx, (line, c) in enumerate(zip(todo, tp)):
            if idx >= len(impl): break
            evaluations += 1
            par = goes_parallel(c)
            if not par: stats["sequential_fallback"] += 1
            elif c["split"] == 1: stats["exact"] += 1
            elif c["size"] == c["total"]: stats["sampling"] += 1
            else: stats["sampling_requested_prefix"] += 1
            if c["size"] < c["total"]: stats["size_lt_total"] += 1
            if c["size"] == 0: stats["size_0"] += 1
            if c["p"] > c["total"]: stats["p_gt_total"] += 1
            stats["stable" if c["stable"] else "unstable"] += 1
            stats["profile_%d" % c["profile"]] = stats.get("profile_%d" % c["profile"], 0) + 1
            if c["kind"]: stats["fat_element"] = stats.get("fat_element", 0) + 1
            if c["entry"] < 2: stats["layout_%s" % ("adjacent" if c["layout"] else "own_blocks")] = stats.get("layout_%s" % ("adjacent" if c["layout"] else "own_blocks"), 0) + 1
            stats["mwma_%d_k%s" % (c["mwma"], len(c["seqs"]) if len(c["seqs"]) < 10 else "10+")] = stats.get("mwma_%d_k%s" % (c["mwma"], len(c["seqs"]) if len(c["seqs"]) < 10 else "10+"), 0) + 1
            if impl[idx] is None or impl[idx] == "CRASH": continue
            f = fields(impl[idx])
            if f.get("fp") == "1" and c["split"] == 0 and c["size"] == c["total"]: stats["fp_rounding_cases"] += 1
            v = property_verdict(c, f)
            if v is not None:
                found = True
                ck.violation("implementation violates the property: " + v, {"case": line, "impl": impl[idx][:600], "replay_cmd": "bin/check C07 --replay <this file>"})
                if ck.violations >= 4: break
                continue
            d = compare_model(c, f, model[idx])
            if d is not None:
                ck.violation("implementation satisfies the property on this case but differs from the Coq model (correspondence C07/PMWM.v run_model): " + d,
                             {"case": line, "impl": impl[idx][:600], "model": model[idx][:600], "correspondence": "C07/PMWM.v run_model vs harness/C07/pmwm_harness.cpp"}, no_input=True)
                if ck.violations >= 4: break
                continue
            if par and (f.get("win", "").count("+") >= 2 or (f.get("win") == "?" and g_windows(model[idx]) >= 2)): distinct.add(line)
        pick = [0, len(corpus), len(todo) // 2, len(todo) - 1]
        samples += [{"case": todo[i], "impl": str(impl[i])[:300], "model": model[i][:300]} for i in pick if 0 <= i < len(impl) and i < len(todo)]
        if ms_cases: samples.append({"case": ms_cases[0][1][:300]})

    # --- ThreadSanitizer (every tier): a dedicated sweep over (k, algorithm, splitting, stable, threads); thorough: in addition a
    #     slice of the generated parallel cases.  Every report is a VIOLATION with the case that was running as replay.
    if texe is None:
        tsan_note = "TSan build failed: " + tlog[-300:]
        ck.violation("ThreadSanitizer build of the harness failed", {"correspondence": "harness/C07/pmwm_harness.cpp -fsanitize=thread", "log": tlog[-2000:]}, no_input=True)
    else:
        tl = []
        if ck.replay:
            tl = [c for c in cases if goes_parallel(parse(c))]
        else:
            gen_tsan_sweep(rng, tl)
            if ck.thorough():
                tl += [l for l, c in zip(todo, tp) if goes_parallel(c) and c["kind"] == 0][:6000]
        tenv = dict(os.environ, TSAN_OPTIONS="halt_on_error=1 exitcode=66")
        start = 0; reports = 0; ran = 0
        while start < len(tl) and reports < 3:
            fn = os.path.join(ck.scratch, "tsan_%d.txt" % start); open(fn, "w").write("\n".join(tl[start:]) + "\n")
            r, o = verif.sh([texe, fn], timeout=2400, env=tenv)
            nl = len([l for l in o.splitlines() if l.startswith("ret=")])
            ran += nl
            if r == 0 and nl == len(tl) - start: break
            bad = start + nl
            if bad >= len(tl): break
            found = True; reports += 1
            race = "ThreadSanitizer" in o and "data race" in o
            ck.violation("ThreadSanitizer reports a data race inside the parallel merge" if race else
                         "the ThreadSanitizer build of the harness fails (rc=%d) on a valid input" % r,
                         {"case": tl[bad], "log_tail": o[-3000:]})
            start = bad + 1
        evaluations += ran
        stats["tsan_cases"] = ran
        tsan_note = ("%d data race report(s)" % reports) if reports else "%d parallel cases under -fsanitize=thread (sweep k 1..6 x algorithm x splitting x stable x threads 2..8%s), no report" % (ran, " + slice of the generated cases" if ck.thorough() else "")

if pr is not None and not pr["ok"]:
    ck.proof_broken(found)

ck.finish({
    "evaluations": evaluations,
    "distinct_nontrivial": len(distinct),
    "rule": "corpus first (witnesses of every defect found and of the seeded changes), then: small inputs (<= 6 sequences, lengths <= 7, 1..6 distinct keys, empties) x EVERY size 0..total x thread counts {1,2,3,total-1,total,total+1,32,random} x both splitting requests (sampling with oversampling 1,2,10); random inputs up to 9 sequences x 200 elements with threads 1..32 and sizes at total, total-1, p-1, p, p+1, random; switch cases around minimal_k / minimal_n / force flags on all four entry points and all four merge algorithms; a sweep of every merge algorithm x k = 2..9 x non-sentinel entry points x memory regime (own exactly sized blocks / adjacent in one buffer, no sentinels) x element kind (12-byte record / 40-byte heap-owning record with poisoning destructor); (stable_)parallel_mergesort runs with both element kinds; a huge-totals family (totals around 2^31 and 2^32 up to 6.4e9 elements in sparse mappings, short prefix merged) judged by the reference and against the model on the inputs truncated to their first `size` elements. Each case runs on the real entry points (real threads, logging output iterator over a buffer of exactly `size` elements, ASan+UBSan) and on the extracted Coq model; compared: returned end, cursors, output (element identities for the stable variants, keys for the unstable ones), per-thread output windows, exactly-once verdict. Independently the implementation's result is judged against the property by a Python reference (sort by (key, sequence, position)). non-trivial = parallel path taken and at least two different threads wrote output; distinct = distinct case text. MWMSA_SAMPLING with size < total is generated freely (every size of the small inputs, half of the random sampling cases): the repaired code serves it with the exact splitter and so does the model.",
    "samples": samples,
    "input_distribution": stats,
    "exhaustive": False,
    "tsan": tsan_note,
    "api_surface": API_SURFACE,
    "api_profiles": PROFILE_NAMES,
    "hardware_concurrency": HW,
}, assumptions=[
    "the parametric theorems take multisequence_partition and the sequential multiway_merge_base as hypotheses (their specifications); coq/C07/Instances.v discharges them with the proved C08 / C05 models (closed theorems C07_closed_*); the extracted model run by the correspondence instantiates them with reference implementations read off the tagged stable merge",
    "the sentinel entry points are called with an element of key INT_MAX behind every sequence (the model gets one sentinel per sequence with a key above all real ones)",
    "/repo contains the C08 tie-rule repair, fixes/C07/01,02 and the dispatch 'MWMSA_SAMPLING with size < total uses exact splitting' (all committed as fix: commits); the model is the repaired behaviour, the shipped selection survives as pmwm_base_shipped with its refutation lemma",
    "sample index of the sampling splitter is modelled by the exact integer floor; cases where the C++ double arithmetic rounds differently (flag fp=1, counted in input_distribution.fp_rounding_cases) are compared on everything except the per-thread windows",
    "std::sort/std::stable_sort of the samples and std::upper_bound are modelled by their specification",
    "huge-totals family: the model cannot execute lists of 2^32 elements; it is run on every sequence truncated to its first `size` elements, which has the same first `size` merged elements and cursors (informal argument; the theorems themselves hold for lists of any length); per-thread windows are not compared there (plain output)",
    "data races at the C++ level are outside the model: supported by the exactly-once writer log on every logged case and by a ThreadSanitizer sweep (k 1..6 x merge algorithm x splitting x stable/unstable x 2..8 threads) on every run, plus a slice of the generated cases in the thorough tier",
    "extraction: ExtrOcamlBasic only",
])
