#!/usr/bin/env python3
"""C02 — B+ tree keeps its balance/order invariants and frees exactly what it allocates:
Coq invariant + allocation-balance theorems over the model of btree.hpp; per operation verify(), the extracted
inv_b on the dumped real tree, allocator counts and stats against the model; ledgers under ASan
(see checks/btree_common.py)."""
import os, sys
sys.path.insert(0, os.path.dirname(os.path.abspath(__file__)))
import btree_common
btree_common.main("C02")
