#!/usr/bin/env python3
"""C12 — CountingPtr: Coq theorems (count = number of handles, destroyed exactly once at zero; sequential histories and the
concurrent inc/dec transition system) + correspondence of the extracted model with the real class
(op-sequence histories over a counted object type, ASan/UBSan; exhaustive interleavings under a deterministic
scheduler shim on std::atomic; real-thread stress run)."""
import json, os, re, sys
HERE = os.path.dirname(os.path.abspath(__file__))
sys.path.insert(0, os.path.join(HERE, "..", "lib"))
import verif

ck = verif.Check("C12")
rng = ck.rng
pr = ck.prove()

# ------------------------------------------------------------------------------------------------ sequential generator
# Every case names the kind of each handle variable: M = CountingPtr<Obj>, C = CountingPtr<const Obj> (both default
# Deleter; the converting overloads go M -> C), N = CountingPtrNoDelete<Obj> (no-operation Deleter: counts like any
# handle, never deletes).  Copy/move/assign/swap need the same kind (C++ typing); handles of different kinds meet on one
# object through construction from get().  The generator tracks liveness and pointer values so that most ops are
# valid and so that it can aim at aliasing (assign between aliases, move from an alias, unify on shared objects,
# default and no-delete handles on the same object).
class Sim:
    def __init__(self, kinds):
        self.K = kinds; self.nv = len(kinds); self.v = [None] * self.nv      # None dead, 0 null, k>0 object id+1
        self.nobj = 0
        self.baseonly = {}     # object -> its dynamic type is Base (only B handles may hold it)
        self.status = {}       # object -> "owned" | "orphan" (left alive by a no-delete handle) | "dead"
    def cnt(self, p): return sum(1 for x in self.v if x == p)
    def live(self): return [i for i in range(self.nv) if self.v[i] is not None]
    def dead(self): return [i for i in range(self.nv) if self.v[i] is None]
    def fresh(self, baseonly=False):
        self.nobj += 1; self.baseonly[self.nobj] = baseonly; self.status[self.nobj] = "owned"; return self.nobj
    def settle(self, v):
        """after an operation whose Deleter (if any) was the one of variable v: objects that lost their last handle"""
        for o in range(1, self.nobj + 1):
            c = self.cnt(o)
            if c > 0: self.status[o] = "owned"
            elif self.status[o] == "owned": self.status[o] = "orphan" if self.K[v] == "N" else "dead"

def typed_pair(K, kind, v, w):
    """op token for a two-variable operation v <- w, or None if the C++ would not compile"""
    if K[v] == K[w]: return kind
    if K[v] in "CB" and K[w] == "M": return "X" + kind
    return None

def fr_ok(K, v, w): return K[w] in "MN" or K[v] == K[w]
def oa_ok(K, v, w): return K[v] == "B" or (K[v] in "MN" and K[w] != "B")
def new_baseonly(K, v, x): return K[v] == "B" and x % 2 == 1

def gen_seq(rng, nops, mode):
    K = ["MCNB", "MCNM", "MBNB", "MNMN", "MCMC", "MNN", "BMB", "MCNMNB", "MCNBNCMB"][rng.below(9)]
    nv = len(K)
    S = Sim(K); ops = []
    guard = 0
    while len(ops) < nops and guard < 20 * nops:
        guard += 1
        r = rng.below(100)
        live = S.live(); dead = S.dead()
        if r < 3:                                         # deliberately invalid lifetime (must be skipped by both sides)
            v = rng.below(nv + 1); w = rng.below(nv)
            k = rng.choice(["X", "R", "U", "CA", "MA", "SW", "CC", "MC", "N", "DF", "AZ", "AD"])
            if k in ("X", "R", "U", "AZ"):
                if v < nv and S.v[v] is None: ops.append("%s,%d" % (k, v))
            elif k in ("N",):
                if v >= nv or S.v[v] is not None: ops.append("N,%d,4" % v)
            elif k == "DF":
                if v >= nv or S.v[v] is not None: ops.append("DF,%d" % v)
            elif k == "AD":                               # adopt a destroyed or not yet existing object, or onto a live variable
                gone = [o for o in S.status if S.status[o] == "dead"] + [S.nobj + 1 + rng.below(2)]
                if v < nv and S.v[v] is None: ops.append("AD,%d,%d" % (v, rng.choice(gone) - 1))
            elif v < nv and (S.v[v] is None or S.v[w] is None) and k in ("CA", "MA", "SW") and K[v] == K[w]:
                ops.append("%s,%d,%d" % (k, v, w))
            elif v < nv and k in ("CC", "MC") and K[v] == K[w] and (S.v[v] is not None or S.v[w] is None):
                ops.append("%s,%d,%d" % (k, v, w))
            continue
        # weights by mode: 0 mixed, 1 alias-heavy, 2 unify-heavy, 3 lifecycle churn, 4 raw-pointer sharing across deleter kinds
        if mode == 1: W = dict(N=6, DF=2, NP=1, FR=8, CC=14, MC=4, CA=18, MA=14, AN=3, R=4, SW=6, U=4, X=8, AD=3, AZ=3, OA=2)
        elif mode == 2: W = dict(N=8, DF=1, NP=1, FR=6, CC=14, MC=3, CA=10, MA=6, AN=4, R=3, SW=3, U=22, X=8, AD=3, AZ=2, OA=2)
        elif mode == 3: W = dict(N=14, DF=5, NP=4, FR=6, CC=10, MC=10, CA=6, MA=6, AN=6, R=6, SW=3, U=4, X=18, AD=6, AZ=5, OA=2)
        elif mode == 4: W = dict(N=8, DF=2, NP=1, FR=22, CC=8, MC=4, CA=8, MA=6, AN=3, R=12, SW=3, U=5, X=14, AD=16, AZ=4, OA=3)
        else: W = dict(N=10, DF=3, NP=2, FR=6, CC=10, MC=7, CA=12, MA=12, AN=5, R=6, SW=6, U=8, X=10, AD=5, AZ=4, OA=3)
        tot = sum(W.values()); pick = rng.below(tot); k = None
        for name in sorted(W):
            if pick < W[name]: k = name; break
            pick -= W[name]
        relv = None
        if k in ("N", "DF", "NP"):
            if not dead: continue
            v = rng.choice(dead)
            if k == "N": x = 1 + rng.below(90); ops.append("N,%d,%d" % (v, x)); S.v[v] = S.fresh(new_baseonly(K, v, x))
            else: ops.append("%s,%d" % (k, v)); S.v[v] = 0
        elif k == "AD":
            if not dead: continue
            v = rng.choice(dead)
            cand = [o for o in S.status if S.status[o] != "dead" and (K[v] == "B" or not S.baseonly[o])]
            orph = [o for o in cand if S.status[o] == "orphan"]
            if orph and rng.below(100) < 60: cand = orph                       # re-adopt an object left alive by a no-delete handle
            if not cand: continue
            o = rng.choice(cand); ops.append("AD,%d,%d" % (v, o - 1)); S.v[v] = o; relv = v
        elif k in ("FR", "CC", "MC"):
            if not dead or not live: continue
            v = rng.choice(dead); w = rng.choice(live)
            if k == "FR":
                other = [u for u in live if K[u] != K[v] and fr_ok(K, v, u) and S.v[u] != 0]
                if other and rng.below(100) < 60: w = rng.choice(other)      # a handle of another kind on the same object
                if not fr_ok(K, v, w): continue
                ops.append("FR,%d,%d" % (v, w)); S.v[v] = S.v[w]
            else:
                t = typed_pair(K, k, v, w)
                if t is None: continue
                ops.append("%s,%d,%d" % (t, v, w)); S.v[v] = S.v[w]
                if k == "MC": S.v[w] = 0
        elif k in ("CA", "MA", "SW", "OA"):
            if not live: continue
            v = rng.choice(live)
            a = rng.below(100)
            aliases = [w for w in live if w != v and S.v[w] == S.v[v] and S.v[v] != 0]
            if a < 12: w = v                                         # self
            elif a < 45 and aliases: w = rng.choice(aliases)         # same object through another variable
            else: w = rng.choice(live)
            if k == "OA":
                if not oa_ok(K, v, w) or S.v[v] == 0 or S.v[w] == 0: continue
                ops.append("OA,%d,%d" % (v, w))
            elif k == "SW":
                if K[v] != K[w]: continue
                ops.append("SW,%d,%d" % (v, w)); S.v[v], S.v[w] = S.v[w], S.v[v]
            else:
                t = typed_pair(K, k, v, w)
                if t is None: continue
                ops.append("%s,%d,%d" % (t, v, w))
                if S.v[v] != S.v[w]:
                    S.v[v] = S.v[w]
                    if k == "MA": S.v[w] = 0
                relv = v
        elif k == "AN":
            if not live: continue
            v = rng.choice(live); x = 1 + rng.below(90); ops.append("AN,%d,%d" % (v, x)); S.v[v] = S.fresh(new_baseonly(K, v, x)); relv = v
        elif k in ("R", "U", "X", "AZ"):
            if not live: continue
            v = rng.choice(live)
            if k == "U":
                shared = [w for w in live if S.v[w] != 0 and S.cnt(S.v[w]) > 1]
                if shared and rng.below(100) < 70: v = rng.choice(shared)
                ops.append("U,%d" % v)
                if S.v[v] != 0 and S.cnt(S.v[v]) > 1: S.v[v] = S.fresh(S.baseonly[S.v[v]] or K[v] == "B")
            elif k in ("R", "AZ"): ops.append("%s,%d" % (k, v)); S.v[v] = 0
            else: ops.append("X,%d" % v); S.v[v] = None
            relv = v
        if relv is not None: S.settle(relv)
    return "seq %s %s" % (K, " ".join(ops))

def alphabet(K):
    """every well-typed operation token over the variables of kinds K (objects created in the exhaustive families are
    all of the derived type: even payloads)"""
    A = []; n = len(K)
    for v in range(n):
        A += ["N,%d,6" % v, "DF,%d" % v, "AN,%d,8" % v, "R,%d" % v, "AZ,%d" % v, "U,%d" % v, "X,%d" % v, "AD,%d,0" % v]
        for w in range(n):
            if fr_ok(K, v, w): A.append("FR,%d,%d" % (v, w))
            for k in ("CC", "MC", "CA", "MA"):
                t = typed_pair(K, k, v, w)
                if t: A.append("%s,%d,%d" % (t, v, w))
            if K[v] == K[w]: A.append("SW,%d,%d" % (v, w))
    return A

FAMILIES = [
    ("MCM", ["N,0,2 CC,2,0 XCC,1,0",          # three aliases of one object
             "N,0,2 CC,2,0 DF,1",             # two aliases and a null
             "N,0,2 N,2,4 XCC,1,0",           # two objects, one shared with the const handle
             "N,0,2 DF,2",                    # unique + null, one dead
             "N,0,2 N,1,4 N,2,6"]),           # three unique
    ("MNN", ["N,0,2 FR,1,0",                  # a default and a no-delete handle on the same object
             "N,0,2 FR,1,0 CC,2,1",           # one default, two no-delete
             "N,1,2 CC,2,1",                  # no-delete handles only
             "N,1,2 R,1",                     # an object left alive by a no-delete handle (to be adopted again)
             "N,1,2 FR,0,1"]),                # object created under a no-delete handle, default handle from the raw pointer
    ("MCN", ["N,0,2 XCC,1,0 FR,2,0"]),        # all three kinds on one object
    ("MBB", ["N,0,2 XCC,1,0 CC,2,1",          # a derived object through one derived and two base handles
             "N,1,2 CC,2,1"]),                # a derived object owned through base handles only
]

def gen_exhaustive(depth):
    out = []
    for K, prefixes in FAMILIES:
        A = alphabet(K)
        def rec(prefix, d):
            out.append("seq %s %s" % (K, prefix))
            if d == 0: return
            for a in A: rec(prefix + " " + a, d - 1)
        for p in prefixes: rec(p, depth if K in ("MCM", "MNN") or depth < 3 else 2)
    return out

# ------------------------------------------------------------------------------------------------ nested-handle (list) generator
# nodes with a member handle `next`, k outer handles (coq/C12/Nested.v).  The ownership graph is kept acyclic
# (docs/audit/C12.md: an object that owns itself is out of scope); everything else is generated, in particular
# v = v->next / v = std::move(v->next) on unique, shared and branching chains.
def lbase(v): return v % 2 == 0       # list harness: even outer handles are CountingPtr<Node> (base), odd ones CountingPtr<Item>
def cp_ok(v, w): return lbase(v) or not lbase(w)      # CP v <- w: same type, or the converting copy-assignment Derived -> Base

def gen_list(rng, nops):
    k = 2 + rng.below(4)
    var = [None] * k; nxt = {}; nn = 0; ops = []
    alive = set()
    def cnt(o): return sum(1 for x in var if x == o) + sum(1 for a in nxt if nxt[a] == o and a in alive)
    def reaches(a, b):      # b reachable from a along next
        seen = 0
        while a is not None and seen < 1000:
            if a == b: return True
            a = nxt.get(a); seen += 1
        return False
    def collect():
        changed = True
        while changed:
            changed = False
            for o in list(alive):
                if cnt(o) == 0: alive.discard(o); changed = True
    guard = 0
    while len(ops) < nops and guard < 30 * nops:
        guard += 1
        r = rng.below(100); v = rng.below(k); w = rng.below(k)
        if r < 22:
            ops.append("NN,%d" % v); var[v] = nn; nxt[nn] = None; alive.add(nn); nn += 1
        elif r < 32:
            if not cp_ok(v, w): continue
            ops.append("CP,%d,%d" % (v, w)); var[v] = var[w]
        elif r < 40: ops.append("RS,%d" % v); var[v] = None
        elif r < 62:
            if lbase(w): continue                                            # v->next = w needs a derived-class handle
            if var[v] is None:
                if r < 42: ops.append("LK,%d,%d" % (v, w))          # -> on an empty handle: skipped by both sides
                continue
            if var[w] is not None and reaches(var[w], var[v]): continue    # would close a cycle
            ops.append("LK,%d,%d" % (v, w)); nxt[var[v]] = var[w]
        elif r < 84:
            if rng.below(100) < 60: w = v                                    # consume from the head
            if var[w] is None:
                if r < 64: ops.append("FN,%d,%d" % (v, w))
                continue
            ops.append("FN,%d,%d" % (v, w)); var[v] = nxt[var[w]]
        else:
            if rng.below(100) < 60: w = v
            if var[w] is None: continue
            ops.append("MN,%d,%d" % (v, w)); src = nxt[var[w]]
            if var[v] != src: nxt[var[w]] = None; var[v] = src
        collect()
    return "list %d %s" % (k, " ".join(ops))

# list-shaped starting states over 4 outer handles (0, 2: base-class handles; 1, 3: derived-class handles)
LIST_PREFIXES = ["NN,1 NN,3 LK,3,1 RS,1",                                  # derived head   v3 -> n1 -> n0
                 "NN,1 NN,3 LK,3,1 RS,1 CP,0,3 RS,3",                      # base head      v0 -> n1 -> n0   (converting overloads)
                 "NN,1 NN,3 LK,3,1 NN,1 LK,1,3 RS,3 CP,0,1 RS,1",          # base head on a chain of three
                 "NN,1 NN,3 LK,3,1 CP,0,3 RS,1",                           # a base and a derived head on the same chain
                 "NN,1 NN,3 LK,3,1 CP,0,3 NN,3 LK,3,1 RS,1"]               # two chains sharing their tail, one per head type
def list_exhaustive(depth):
    A = []
    for v in range(4):
        A += ["NN,%d" % v, "RS,%d" % v]
        for w in range(4):
            if cp_ok(v, w): A.append("CP,%d,%d" % (v, w))
            A += ["FN,%d,%d" % (v, w), "MN,%d,%d" % (v, w)]          # no LK here: it could close a cycle (out of scope); the random generator links acyclically
    out = []
    def rec(prefix, d):
        out.append("list 4 " + prefix)
        if d == 0: return
        for a in A: rec(prefix + " " + a, d - 1)
    for p in LIST_PREFIXES: rec(p, depth)
    return out

# ------------------------------------------------------------------------------------------------ concurrent generator
def prog_ops(p):
    """(estimated) scheduling points of a thread program: its letters plus the final drops of what it still holds"""
    h = 1; n = 0
    cost = {"C": 1, "c": 1, "D": 1, "r": 1, "x": 1, "U": 1, "u": 4, "q": 2, "m": 0, "s": 0, "k": 4, "K": 4, "n": 3}
    for c in p:
        if h == 0: break
        n += cost.get(c, 1)
        if c in "Cc": h += 1
        elif c in "Drx": h -= 1
    return n + h

def multinomial(ms):
    from math import factorial
    r = factorial(sum(ms))
    for m in ms: r //= factorial(m)
    return r

def gen_prog(rng, maxlen):
    h = 1; p = ""
    for _ in range(rng.below(maxlen + 1)):
        if h == 0: break
        c = rng.choice("CCcDDrxUuuqmskKn")
        if c in "Cc": h += 1
        elif c in "Drx": h -= 1
        p += c
    return p or "-"

# scenarios that are ALWAYS explored by a complete depth-first enumeration of their interleavings ("-" = the thread only
# drops the one handle it starts with): k threads each dropping their last handle at the same time (k = 2, 3, 4),
# one thread copying and dropping while the others drop, a use racing with the last releases, unify() racing with the
# release of the only other handle (and with another unify, and with two releases), every other member (observers,
# move, swap, converting overloads, a no-delete handle) racing with a release.
MANDATORY = ["- -", "- - -", "- - - -", "CD -", "cr -", "CD - -", "C - -", "CD CD", "U - -", "x r", "CDD Ur",
             "u -", "u - -", "u u", "Cu -", "uD C", "q -", "ms -", "k -", "K -", "n -", "n u"]

def conc_cases(rng, thorough):
    cap_fixed = 8000 if thorough else 1500
    out = ["conc 100000 dfs " + p for p in MANDATORY]
    fixed = ["CUD cr Ux", "CC UD", "x r D D", "uU u -"]
    if thorough: fixed += ["CDD CDD CDD", "CcDD crU", "U U U U", "CD CD D D", "u u u", "Cu qr k", "uu Cu -"]
    out += ["conc %d dfs %s" % (cap_fixed, p) for p in fixed]
    budget = 40000 if thorough else 2500
    nrand = 60 if thorough else 10
    for k in range(nrand):
        nt = 2 + rng.below(3)
        progs = [gen_prog(rng, 5 if nt == 2 else 3) for _ in range(nt)]
        total = multinomial([prog_ops(p) for p in progs])
        share = budget // nrand
        # the cap also bounds the enumeration when the code under test performs more atomic operations than expected
        if total <= share: out.append("conc %d dfs %s" % (4 * share, " ".join(progs)))
        else: out.append("conc %d rand:%d:%d %s" % (share, rng.below(1 << 30), share, " ".join(progs)))
    return out

# ------------------------------------------------------------------------------------------------ cases
corpus = [l.strip() for l in open(os.path.join(verif.VERIF, "corpus", "C12", "cases.txt")) if l.strip() and not l.startswith("#")]
seq_cases = [c for c in corpus if c.startswith("seq ")]
cc_cases = [c for c in corpus if c.startswith("conc ")]
list_cases = [c for c in corpus if c.startswith("list ")]
ncorpus = len(seq_cases); ncorpus_conc = len(cc_cases)
nexh = 0
run_stress = True
if ck.replay:
    rp = json.load(open(ck.replay))
    c = str(rp.get("case", ""))
    seq_cases = [c] if c.startswith("seq ") else []
    cc_cases = [c] if c.startswith("conc ") else []
    list_cases = [c] if c.startswith("list ") else []
    run_stress = c.startswith("stress")
    ncorpus = 0; ncorpus_conc = 0
else:
    ex = gen_exhaustive(3 if ck.thorough() else 2)
    nexh = len(ex); seq_cases += ex
    N = 60000 if ck.thorough() else 3000
    for k in range(N):
        seq_cases.append(gen_seq(rng, 8 + rng.below(50), k % 5))
    cc_cases += conc_cases(rng, ck.thorough())
    list_cases += list_exhaustive(2)      # 5 prefixes x every sequence of <= 2 of the 48 typed operations NN/RS/CP/FN/MN over 4 handles
    for k in range(20000 if ck.thorough() else 1000): list_cases.append(gen_list(rng, 6 + rng.below(30)))
casefile = os.path.join(ck.scratch, "seq_cases.txt")
open(casefile, "w").write("\n".join(seq_cases) + ("\n" if seq_cases else ""))

found = False
stats = {"seq_corpus": ncorpus, "seq_bounded_exhaustive": nexh, "seq_random": len(seq_cases) - ncorpus - nexh}
opstats = {}
kstats = {}
distinct = set()
samples = []

def crash_excerpt(o):
    m = re.search(r"(ERROR: |Assertion|runtime error|SUMMARY: )", o)
    return o[max(0, m.start() - 200):m.start() + 1800] if m else o[-2000:]

def first_failing(cmd_of, cases, nprinted):
    """the harness crashed after printing `nprinted` complete result lines: locate the case by running the rest singly"""
    for idx, c in enumerate(cases):
        if idx < nprinted: continue
        one = os.path.join(ck.scratch, "one.txt"); open(one, "w").write(c + "\n")
        r, o = verif.sh(cmd_of(one), timeout=300, env=dict(os.environ, ASAN_OPTIONS="detect_leaks=0"))
        if r != 0: return c, o
    return None, ""

# ------------------------------------------------------------------------------------------------ sequential part
exe, log = ck.build_cpp("c12_seq", ["harness/C12/cptr_harness.cpp"])
drv, dlog = ck.ocaml_driver("C12")
if exe is None:
    ck.violation("correspondence harness does not compile against /repo", {"correspondence": "harness/C12/cptr_harness.cpp", "log": log[-2000:]}, no_input=True)
elif drv is None:
    ck.violation("extracted model/driver does not build", {"correspondence": "ocaml/C12_driver.ml", "log": dlog[-2000:]}, no_input=True)
elif seq_cases:
    rc1, out1 = verif.sh([exe, casefile], timeout=3000, env=dict(os.environ, ASAN_OPTIONS="detect_leaks=1"))
    rc2, out2 = verif.sh([drv, casefile], timeout=3000)
    impl = out1.splitlines(); model = out2.splitlines()
    if rc1 != 0:
        found = True
        c, o = first_failing(lambda one: [exe, one], seq_cases, sum(1 for l in impl if re.search(r" P=\S+$", l.strip()) and l.count(";")))
        ck.violation("real CountingPtr crashes (assert/ASan/UBSan) on a valid handle history",
                     {"case": c, "log_tail": crash_excerpt(o or out1)})
    elif rc2 != 0:
        ck.violation("model driver failed", {"correspondence": "ocaml/C12_driver.ml", "log": out2[-1500:]}, no_input=True)
    else:
        for idx, c in enumerate(seq_cases):
            a = impl[idx].strip() if idx < len(impl) else "<missing>"
            b = model[idx].strip() if idx < len(model) else "<missing>"
            if "ILLTYPED" in a or "MODEL-LEDGER-BAD" in b:
                ck.violation("generator/model self-check failed: " + (a[-60:] if "ILLTYPED" in a else b[-60:]), {"case": c, "impl": a, "model": b}, no_input=True)
                break
            for tk in c.split()[2:]:
                k = tk.split(",")[0]; opstats[k] = opstats.get(k, 0) + 1
            # non-trivial: some observed state has a shared object (unique()==false on a non-null handle) and some object has been destroyed before the end
            if re.search(r":\d+:0:", b) and re.search(r";[0-9.]*1[0-9.]*[; ]", b): distinct.add(c)
            kstats[c.split()[1]] = kstats.get(c.split()[1], 0) + 1
            if not a.endswith("P=ok"):
                found = True
                ck.violation("CountingPtr violates the property on this history: " + a[a.rfind("P="):][:150],
                             {"case": c, "impl": a, "model": b})
            elif a != b:
                ck.violation("implementation differs from the proven model (the property verdict on the implementation's own observations is ok): impl=%s model=%s" % (a[-100:], b[-100:]),
                             {"case": c, "impl": a, "model": b, "correspondence": "harness/C12/cptr_harness.cpp vs coq/C12/CPtr.v"}, no_input=True)
            if ck.violations >= 3: break
        samples = [{"case": seq_cases[i], "result": impl[i]} for i in (0, ncorpus + 40, ncorpus + nexh + 1) if i < len(impl)]

# ------------------------------------------------------------------------------------------------ nested handles: list histories vs Nested.v
list_stats = {"list_cases": len(list_cases), "list_nontrivial": 0}
if list_cases and drv is not None:
    lexe, llog = ck.build_cpp("c12_list", ["harness/C12/list_harness.cpp"])
    if lexe is None:
        ck.violation("list harness does not compile against /repo", {"correspondence": "harness/C12/list_harness.cpp", "log": llog[-2000:]}, no_input=True)
    else:
        lfile = os.path.join(ck.scratch, "list_cases.txt"); open(lfile, "w").write("\n".join(list_cases) + "\n")
        rc1, out1 = verif.sh([lexe, lfile], timeout=3000, env=dict(os.environ, ASAN_OPTIONS="detect_leaks=1"))
        rc2, out2 = verif.sh([drv, lfile], timeout=3000)
        impl = out1.splitlines(); model = out2.splitlines()
        if rc1 != 0:
            found = True
            c, o = first_failing(lambda one: [lexe, one], list_cases, sum(1 for l in impl if re.search(r" P=\S+$", l.strip()) and ";" in l))
            ck.violation("CountingPtr crashes (assert/ASan/UBSan) on a history with handles inside managed objects", {"case": c, "log_tail": crash_excerpt(o or out1)})
        else:
            for idx, c in enumerate(list_cases):
                a = impl[idx].strip() if idx < len(impl) else "<missing>"
                b = model[idx].strip() if idx < len(model) else "<missing>"
                if "MODEL-LEDGER-BAD" in b or "ILLTYPED" in a:
                    ck.violation("generator/model self-check failed: " + (b[-60:] if "MODEL" in b else a[-60:]), {"case": c, "model": b, "impl": a}, no_input=True); break
                # non-trivial: a node is destroyed by an assignment from a member (FN/MN with v == w) somewhere in the case
                if re.search(r"(FN|MN),(\d),\2", c) and re.search(r";[0-9>.\-]*1>", b.split(" F:")[0]): list_stats["list_nontrivial"] += 1; distinct.add(c)
                if not a.endswith("P=ok"):
                    found = True
                    ck.violation("CountingPtr violates the property on this history with handles inside objects: " + a[a.rfind("P="):][:150], {"case": c, "impl": a, "model": b})
                elif a != b:
                    ck.violation("implementation differs from the proven nested-handle model: impl=%s model=%s" % (a[-100:], b[-100:]),
                                 {"case": c, "impl": a, "model": b, "correspondence": "harness/C12/list_harness.cpp vs coq/C12/Nested.v"}, no_input=True)
                if ck.violations >= 3: break
            if impl: samples.append({"case": list_cases[min(len(list_cases) - 1, len(corpus))], "result": impl[min(len(impl) - 1, len(corpus))]})

# ------------------------------------------------------------------------------------------------ concurrent part: interleavings under the shim
conc_stats = {"conc_cases": len(cc_cases), "mandatory_scenarios_fully_enumerated": 0, "traces_with_unify_clone": 0, "interleavings": 0, "exhaustive_cases": 0, "distinct_traces": 0, "preempted_traces": 0, "max_depth": 0}
if cc_cases and drv is not None:
    shim = os.path.join(verif.VERIF, "harness", "C12", "atomic_shim.hpp")
    cexe, clog = ck.build_cpp("c12_conc", ["harness/C12/conc_harness.cpp"], extra=["-include", shim, "-DNDEBUG"])
    if cexe is None:
        ck.violation("interleaving harness (std::atomic shim) does not compile against /repo", {"correspondence": "harness/C12/conc_harness.cpp", "log": clog[-2000:]}, no_input=True)
    else:
        ccfile = os.path.join(ck.scratch, "conc_cases.txt"); trfile = os.path.join(ck.scratch, "traces.txt")
        open(ccfile, "w").write("\n".join(cc_cases) + "\n")
        rc1, out1 = verif.sh([cexe, ccfile, trfile], timeout=3000, env=dict(os.environ, ASAN_OPTIONS="detect_leaks=0"))
        summ = out1.splitlines()
        if rc1 != 0:
            found = True
            c, o = first_failing(lambda one: [cexe, one, os.path.join(ck.scratch, "tr1.txt")], cc_cases, sum(1 for l in summ if l.startswith("conc case=")))
            sched = ""
            try:
                last = open(os.path.join(ck.scratch, "tr1.txt")).read().splitlines()
                if last: sched = last[-1][last[-1].rfind("sched=") + 6:]
            except OSError: pass
            ck.violation("CountingPtr crashes (assert/ASan/UBSan) under some interleaving of copy/drop threads",
                         {"case": c, "last_completed_schedule_before_the_crash": sched, "log_tail": crash_excerpt(o or out1)})
        else:
            rc2, out2 = verif.sh([drv, trfile], timeout=3000)
            traces = open(trfile).read().splitlines(); verdicts = out2.splitlines()
            seen = set()
            for si, s in enumerate(summ):
                m = re.search(r"interleavings=(\d+) exhaustive=(\d) depth=(\d+)", s)
                if m and not ck.replay and ncorpus_conc <= si < ncorpus_conc + len(MANDATORY):
                    if m.group(2) == "1": conc_stats["mandatory_scenarios_fully_enumerated"] += 1
                    elif s.rstrip().endswith("P=ok"):
                        ck.violation("a mandatory small scenario could not be enumerated completely (the code performs far more atomic operations than the model expects): " + s,
                                     {"case": cc_cases[si], "correspondence": "harness/C12/conc_harness.cpp"}, no_input=True)
                if m:
                    conc_stats["interleavings"] += int(m.group(1)); conc_stats["exhaustive_cases"] += int(m.group(2))
                    conc_stats["max_depth"] = max(conc_stats["max_depth"], int(m.group(3)))
            def rcase_of(tl):
                cno = int(tl.split()[1]); progs = " ".join(cc_cases[cno].split()[3:])
                sched = tl[tl.rfind("sched=") + 6:]
                return "conc 1 sched:%s %s" % (sched if sched else "0", progs)
            # pass 1: statistics, and the interleavings on which the IMPLEMENTATION's own observations violate the property
            # (Deleter count, object destroyed while a handle remains, ...): these are reported first, with their schedule
            nbad = 0
            for idx, tl in enumerate(traces):
                f = tl.split()
                body = tl[:tl.rfind(" P=")]
                if body not in seen:
                    seen.add(body)
                    if " K," in body: conc_stats["traces_with_unify_clone"] += 1
                    tids = [e.split(",")[1] for e in f[3:f.index(";")] if e[0] in "ASUDK"]
                    comp = [x for i2, x in enumerate(tids) if i2 == 0 or tids[i2 - 1] != x]
                    if len(comp) != len(set(comp)): conc_stats["preempted_traces"] += 1; distinct.add(body)
                mp = re.search(r" P=(\S.*) sched=", tl)
                if (not mp or mp.group(1) != "ok") and nbad < 3:
                    found = True; nbad += 1
                    ck.violation("CountingPtr violates the property under this interleaving: " + (mp.group(1) if mp else tl[-80:]),
                                 {"case": rcase_of(tl), "trace": tl})
            # pass 2 (only when no interleaving violates the property itself): traces that are not runs of the proven transition system
            if nbad == 0:
                for idx, tl in enumerate(traces):
                    v = verdicts[idx] if idx < len(verdicts) else "<missing>"
                    md = re.search(r"dtor=([\d.]+) ", tl)
                    want = "destroyed=%s bad=0 quiescent=1" % md.group(1)
                    if "accepted" not in v or want not in v or not re.search(r" rc=0(\.0)* ", v):
                        ck.violation("event trace of the implementation is not a run of the proven transition system: %s" % v,
                                     {"case": rcase_of(tl), "trace": tl, "model": v, "correspondence": "harness/C12/conc_harness.cpp vs coq/C12/Conc.v"}, no_input=True)
                    if ck.violations >= 3: break
            conc_stats["distinct_traces"] = len(seen)
            if traces: samples.append({"case": cc_cases[int(traces[len(traces) // 2].split()[1])], "trace": traces[len(traces) // 2], "model": verdicts[len(traces) // 2] if len(traces) // 2 < len(verdicts) else ""})

# ------------------------------------------------------------------------------------------------ handles inside managed objects
# In scope (docs/audit/C12.md): a history is in scope iff no object is (transitively) owned by itself and no handle is
# assigned to while it is being destroyed.  Acyclic chains (consumed by head = head->next / std::move(head->next) / the
# converting overloads: defect fixed in ccc5d47), trees, shared children, containers of handles are; an object that keeps
# itself alive through a member handle is not: those scenarios are run for information only and never enter the verdict.
# The scenarios named in the corpus ("nested <scenario>": the witnesses of ccc5d47 and 87f867d) run first.
# assignment operators as a product: {copy, move} x {same type, converting Derived -> Base} x {source is a member of the object
# being released, a member of another live object, a local handle}; reset()-then-assign; swap with a member
NESTED_PRODUCT = ["assign_%s_%s_%s" % (k, c, w) for k in ("copy", "move") for c in ("same", "conv") for w in ("member", "other", "local")]
NESTED_ALL = ["pop_copy", "pop_move", "pop_conv_copy", "pop_conv_move", "pop_all", "empty_use_count"] + NESTED_PRODUCT + \
             ["reset_assign_copy_same", "reset_assign_move_same", "reset_assign_copy_conv", "reset_assign_move_conv", "swap_member",
              "traverse", "cascade", "tree_swap_unify", "shared_child", "container", "tree"]
NESTED_INFO = ["self_reset", "self_assign_null", "self_move_assign", "self_copy_assign"]  # out of scope (self-owning object)
nested_stats = {}
nested_info = {}
if not ck.replay or str(rp.get("case", "")).startswith("nested "):
    nexe, nlog = ck.build_cpp("c12_nested", ["harness/C12/nested_harness.cpp"])
    if nexe is None:
        ck.violation("nested-handle harness does not compile against /repo", {"correspondence": "harness/C12/nested_harness.cpp", "log": nlog[-2000:]}, no_input=True)
    else:
        first = [c.split()[1] for c in corpus if c.startswith("nested ")]
        todo = first + [sc for sc in NESTED_ALL if sc not in first] + NESTED_INFO
        if ck.replay: todo = [str(rp["case"]).split()[1]]
        # fast path: all scenarios of the verdict in one process; only if that does not come back clean, one process each
        batch = [sc for sc in todo if sc not in NESTED_INFO]
        batch_ok = False
        if len(batch) > 1:
            rcb, outb = verif.sh([nexe] + batch, timeout=600, env=dict(os.environ, ASAN_OPTIONS="detect_leaks=1"))
            batch_ok = rcb == 0 and sorted(l.strip() for l in outb.splitlines() if l.strip()) == sorted(sc + " ok" for sc in batch)
        for sc in todo:
            if batch_ok and sc in batch: nested_stats[sc] = "ok"; continue
            rcn, outn = verif.sh([nexe, sc], timeout=120, env=dict(os.environ, ASAN_OPTIONS="detect_leaks=1"))
            okn = rcn == 0 and outn.strip().splitlines()[-1:] == ["ok"]
            if sc in NESTED_INFO: nested_info[sc] = "ok" if okn else "fails"; continue
            nested_stats[sc] = "ok" if okn else "FAILS"
            if not okn:
                found = True
                what = ("use_count() of an empty handle (scenario %s): %s" if sc == "empty_use_count" else "handles inside managed objects, scenario %s: %s") % (sc, (outn.strip().splitlines() or ["?"])[-1][:120] if rcn == 0 else "crash (assert/ASan/UBSan): " + (re.search(r"(ERROR: AddressSanitizer: [^\n]*|Assertion[^\n]*|runtime error: [^\n]*)", outn) or re.search(r".*", outn)).group(0)[:160])
                rpl = {"case": "nested " + sc, "log_tail": crash_excerpt(outn)}
                ck.violation(what, rpl)
        samples.append({"case": "nested <scenario>", "result": nested_stats})
# ------------------------------------------------------------------------------------------------ real-thread stress run
stress_stats = {}
if run_stress:
    rounds = 12 if ck.thorough() else 4
    sseed = rng.below(1 << 30)
    # -DNDEBUG: the stress run's own counters (objects destroyed exactly once, Deleter calls per object) must report a wrong
    # count, not the library's assert; the assert-enabled build runs in the thorough tier as well
    runs = [("asan_ndebug", verif.CXXFLAGS_SAN + ["-DNDEBUG"])]
    if ck.thorough():
        runs.append(("asan", None))
        runs.append(("tsan_ndebug", ["-std=c++17", "-O1", "-g", "-fsanitize=thread", "-DNDEBUG"]))
    for name, flags in runs:
        sexe, slog = ck.build_cpp("c12_stress_" + name, ["harness/C12/stress.cpp"], flags=flags)
        if sexe is None:
            ck.violation("stress harness does not compile against /repo", {"correspondence": "harness/C12/stress.cpp", "log": slog[-2000:]}, no_input=True)
            continue
        for k in (2, 3):
            cmd = [sexe, str(rounds), str(k), "100000", str(sseed)]
            rcs, outs = verif.sh(cmd, timeout=900)
            stress_stats["%s_threads%d" % (name, k)] = outs.count(" ok")
            if rcs != 0:
                found = True
                ck.violation("real-thread stress run: object not destroyed exactly once / sanitizer report",
                             {"case": "stress %d %d 100000 %d (%s)" % (rounds, k, sseed, name), "log_tail": crash_excerpt(outs)})
    if stress_stats: samples.append({"case": "stress %d {2,3} 100000 %d" % (rounds, sseed), "result": stress_stats})

if pr is not None and not pr["ok"]:
    ck.proof_broken(found)

ck.finish({
    "evaluations": len(seq_cases) + len(list_cases) + conc_stats["interleavings"],
    "distinct_nontrivial": len(distinct),
    "rule": "(1) handle-operation histories over 2..8 typed handle variables (M CountingPtr<Obj>, C CountingPtr<const Obj>, N CountingPtrNoDelete<Obj>, B CountingPtr<Base> with Obj : Pad, Base so that Derived->Base conversions adjust the pointer; handles of different kinds share objects through get() and through adoption of raw pointers - also of objects that have no handle any more) and as many objects as the history creates: "
            "corpus; every well-typed operation sequence of length <= 2 (quick) / 3 (thorough) over 3 variables of kinds MCM / MNN / MCN / MBB after 13 aliasing prefixes (incl. a default and a no-delete handle on one object); "
            "random histories from a pointer-tracking generator in 5 bias modes (mixed, alias-heavy, unify-heavy, lifetime churn, raw-pointer sharing across deleter kinds) with self-/alias-assignment aimed at. "
            "Each runs on the real class (counted object type with destructor log and live-instance set, ASan+UBSan+leak check) and on the extracted Coq model; "
            "after every step get()/bool/use_count()/unique()/payload of every variable of every deleter kind, the destructor log and the set of objects left alive by a no-delete handle are compared (all other observers - valid, empty, *, ->, the 12 comparison operators, operator<< - are checked against get()), and the property is evaluated on the implementation's observations alone. "
            "non-trivial = the history reaches a state with a shared object and destroys an object before the end; distinct = distinct case text. "
            "(2) 2-4 real threads running programs over every mutating and observing member (copy/move construction and assignment, converting overloads, reset, swap, unify, unique/use_count, a no-delete handle) on one shared object and the clones unify() makes, under a deterministic scheduler (std::atomic inside tlx redirected by a force-included shim): "
            "every atomic operation (read-modify-write, plain load, plain store), the Deleter call and the element's copy constructor (inside unify()) are scheduling points; a fixed list of small scenarios (k = 2,3,4 threads each dropping their last handle at the same time, copy+drop against drop, use against the last releases, unify() against the release of the only other handle / another unify / two releases, every other member against a release) is ALWAYS enumerated completely, the other programs completely when they fit the budget, else sampled; the Deleter passed to CountingPtr counts its calls (exactly 1 required) and defers the release of the memory, so a double destruction is a reported verdict with its schedule, not a crash; every logged event trace (fetch_add/fetch_sub with the value read, Deleter, use) is projected onto each object and replayed on the extracted transition system of Conc.v (unify = clone-read + release on the original; the clone is a new instance). "
            "non-trivial = a thread is preempted between two of its shared actions; distinct = distinct event trace. "
            "(1b) histories over nodes with a member handle `next` and 2-4 outer handles (new node, copy, reset, v->next = w, v = w->next, v = std::move(w->next); acyclic ownership): every sequence of length <= 2 (quick) / 3 (thorough) after 4 list-shaped prefixes plus random histories, compared step by step (node and use_count of every outer handle, destructor log, successor of every live node) with the extracted model of coq/C12/Nested.v; non-trivial = a node is destroyed by an assignment whose source is a member of that node. (2b) fixed scenarios with handles INSIDE managed objects (lists consumed by head = head->next / std::move(head->next), an object keeping itself alive, swap/unify with member handles, a 2000-node cascade): destructor log + ASan only, outside the Coq model; all part of the verdict (the list-consuming ones are the witnesses of ccc5d47); self-owning objects are out of scope and informational. (3) real-thread stress with real std::atomic (built with -DNDEBUG so that wrong counts are reported by the run itself; 2 and 3 threads; per round 1e5 mixed handle operations per thread on one shared object, then a release race: every thread lets go of each of 20000 objects at the same moment behind a per-object spin barrier, with a Deleter that counts its calls - every object must see exactly one; TSan build in the thorough tier): counted only in input_distribution.",
    "samples": samples,
    "input_distribution": dict(stats, seq_ops=opstats, seq_variable_kinds=kstats, **conc_stats, stress_rounds_ok=stress_stats),
    "traces_validated_against_impl": conc_stats["interleavings"],
    "nested_handle_scenarios": nested_stats,
    "nested_list_histories": list_stats,
    "out_of_scope_self_owning_object_scenarios_informational": nested_info,
}, assumptions=[
    "extraction: ExtrOcamlBasic only; nat/list stay Coq inductives",
    "the interleaving harness is compiled with -DNDEBUG (the asserts of ReferenceCounter would add a plain load, i.e. a scheduling point, to every operation); the sequential harness and the stress run keep the asserts",
    "std::atomic<size_t> is modelled as sequentially consistent, one event per read-modify-write (the source uses the default seq_cst ++/--); the shim gives exactly that semantics; weak-memory behaviour is outside the model and only exercised by the real-thread stress run (ASan, TSan in the thorough tier)",
    "lifetime preconditions of the C++ object model (constructors on raw storage, everything else on constructed handles; use_count() only on non-empty handles) are preconditions of the histories: an operation violating them is skipped by model and harness alike",
    "CPtr.v (all constructors / deleter kinds / unify): the managed type holds plain data. Handles inside managed objects are modelled and proved separately in Nested.v for one member handle per object (lists, shared tails, chains consumed from the head) and tied by harness/C12/list_harness.cpp; trees, containers of handles, unify/swap with member handles are covered by harness/C12/nested_harness.cpp only (destructor log + ASan). Self-owning objects are out of scope (docs/audit/C12.md)",
    "variables are typed in the harness (M/C/N per case); the converting overloads are exercised Obj -> const Obj only; the model knows only the deleter kind of each variable (any assignment) and the theorems cover all histories",
    "an object whose last handle was a no-delete handle stays alive without owner (the no-operation Deleter ran); the harness releases it at the end of the case",
])
