#!/usr/bin/env python3
"""C20 -- integer math helpers and Aggregate.
Coq theorems (Properties_C20.v) about the executable model of tlx/math/*.hpp; correspondence: the real functions
(templates, intrinsic-backed overloads) and tlx::Aggregate<double>, compiled from /repo with ASan+UBSan, against the
OCaml extraction of the model and against an independent arbitrary-precision reference (Python ints / Fractions)."""
import json, os, sys
from fractions import Fraction
HERE = os.path.dirname(os.path.abspath(__file__))
sys.path.insert(0, os.path.join(HERE, "..", "lib"))
import verif

ck = verif.Check("C20")
rng = ck.rng
pr = ck.prove()

TY = {"u8": (8, False), "i8": (8, True), "u16": (16, False), "i16": (16, True),
      "u32": (32, False), "i32": (32, True), "u64": (64, False), "i64": (64, True),
      "ull": (64, False), "ll": (64, True)}          # unsigned long long / long long: same model type as u64 / i64
ALL_TYPES = ["u8", "i8", "u16", "i16", "u32", "i32", "u64", "i64", "ull", "ll"]
INT_MIN, INT_MAX = -(1 << 31), (1 << 31) - 1

def trange(t):
    w, s = TY[t]
    return (-(1 << (w - 1)), (1 << (w - 1)) - 1) if s else (0, (1 << w) - 1)

def promoted(t):
    return "i32" if TY[t][0] < 32 else t

def common_type(t1, t2):
    """usual arithmetic conversions (LP64), as (width, signed)"""
    (w1, s1), (w2, s2) = TY[promoted(t1)], TY[promoted(t2)]
    if w1 == w2: return (w1, s1 and s2)
    return (w1, s1) if w1 > w2 else (w2, s2)

def fits_ws(ws, v):
    w, s = ws
    return (-(1 << (w - 1)) <= v <= (1 << (w - 1)) - 1) if s else (0 <= v <= (1 << w) - 1)

def fits(t, v):
    lo, hi = trange(t)
    return lo <= v <= hi

# ------------------------------------------------------------------ independent reference (mathematical definitions)
def ref1(fn, t, x):
    """value the property demands, or None when it makes no claim (outside the documented domain / not representable)"""
    w, s = TY[t]
    p = x & ((1 << w) - 1)
    if fn in ("clz", "clz_template"):
        return w - p.bit_length()
    if fn in ("ctz", "ctz_template"):
        return w if p == 0 else (p & -p).bit_length() - 1
    if fn in ("ffs", "ffs_template"):
        return 0 if p == 0 else (p & -p).bit_length()
    if fn.startswith("popcount"):
        return bin(p).count("1")
    if fn in ("integer_log2_floor", "integer_log2_floor_template"):
        if x < 0: return None
        return 0 if x == 0 else x.bit_length() - 1          # log2(0) := 0 is the documented convention
    if fn == "integer_log2_ceil":
        if x < 0: return None
        return 0 if x <= 1 else (x - 1).bit_length()
    if fn in ("is_power_of_two", "is_power_of_two_template"):
        return 1 if x > 0 and (x & (x - 1)) == 0 else 0
    if fn in ("round_up_to_power_of_two", "round_up_to_power_of_two_template"):
        if x < 1: return None
        r = 1 << (x - 1).bit_length()
        return r if fits(t, r) else None
    if fn in ("round_down_to_power_of_two", "round_down_to_power_of_two_template"):
        if x < 0: return None
        return 0 if x == 0 else 1 << (x.bit_length() - 1)   # 0 -> 0 is fixed by tests/math_test.cpp
    if fn.startswith("bswap"):
        n = w // 8
        return int.from_bytes(p.to_bytes(n, "little"), "big")
    if fn == "sgn":
        return (x > 0) - (x < 0)
    raise KeyError(fn)

def ref2(fn, t, a, b):
    w, s = TY[t]
    if fn in ("rol", "rol_generic", "ror", "ror_generic"):
        sft = b % w
        if fn.startswith("ror"): sft = (w - sft) % w
        m = (1 << w) - 1
        return ((a << sft) | (a >> (w - sft))) & m
    if fn == "div_ceil":
        if a < 0 or b < 1: return None
        return -((-a) // b)
    if fn == "round_up":
        if a < 0 or b < 1: return None
        r = -((-a) // b) * b
        return r if fits(promoted(t), r) else None
    if fn == "abs_diff":
        r = abs(a - b)
        return r if fits(t, r) else None
    raise KeyError(fn)

def ref2m(fn, tn, tk, a, b):
    if a < 0 or b < 1: return None
    q = -((-a) // b)
    if fn == "div_ceil": return q
    r = q * b
    return r if fits_ws(common_type(tn, tk), r) else None

PB_PAGE, PB_CHUNK = 4096, 2 << 20
PB_HEAD = [((i * 37 + 11) & 0xFF) if i % 3 == 0 else 0 for i in range(PB_PAGE)]
PB_TAIL = [((i * 101 + 7) & 0xFF) if i % 5 == 0 else 0 for i in range(PB_PAGE)]
PB_HEAD_BITS = [0]; PB_TAIL_BITS = [0]
for _b in PB_HEAD: PB_HEAD_BITS.append(PB_HEAD_BITS[-1] + bin(_b).count("1"))
for _b in PB_TAIL: PB_TAIL_BITS.append(PB_TAIL_BITS[-1] + bin(_b).count("1"))

def pbig_expected(nchunks, skip, cut):
    """one bits of [skip, total - cut) of: sparse head page, nchunks x 2 MiB of 0xFF, sparse tail page (pure arithmetic)"""
    ff0 = PB_PAGE; ff1 = PB_PAGE + nchunks * PB_CHUNK; total = ff1 + PB_PAGE
    lo, hi = skip, total - cut
    if lo > hi: return None
    def clip(a, b): return (max(lo, a), min(hi, b))
    a, b = clip(0, ff0); head = PB_HEAD_BITS[b] - PB_HEAD_BITS[a] if b > a else 0
    a, b = clip(ff0, ff1); ff = 8 * (b - a) if b > a else 0
    a, b = clip(ff1, total); tail = PB_TAIL_BITS[b - ff1] - PB_TAIL_BITS[a - ff1] if b > a else 0
    return head + ff + tail

def nontrivial1(x):
    return x != 0 and (x & (x - 1)) != 0 and x != -1

def nontrivial2(fn, t, a, b):
    if fn.startswith("ro"): return b % TY[t][0] != 0 and a not in (0, (1 << TY[t][0]) - 1)
    if fn in ("div_ceil", "round_up"): return b > 0 and a % b != 0
    return a != b

# ------------------------------------------------------------------ generators
def structured(w):
    M = (1 << w) - 1
    v = set([0, 1, 2, 3, M, M - 1, M >> 1, (M >> 1) + 1, (M >> 1) - 1, (M >> 1) + 2, 0x55555555_55555555 & M, 0xAAAAAAAA_AAAAAAAA & M])
    for i in range(w):
        for d in (-2, -1, 0, 1, 2):
            v.add(((1 << i) + d) & M)
        v.add(M ^ (1 << i)); v.add(M >> i); v.add((M << i) & M)
        for j in range(i):
            v.add((1 << i) | (1 << j))
    return v

def randoms(w, n):
    M = (1 << w) - 1
    out = set()
    while len(out) < n:
        k = rng.below(5)
        if k == 0: x = rng.next() & M
        elif k == 1:
            bits = rng.range(1, w); x = (rng.next() & ((1 << bits) - 1)) | (1 << (bits - 1))
        elif k == 2: x = rng.next() & rng.next() & rng.next() & M
        elif k == 3: x = (rng.next() | rng.next() | rng.next()) & M
        else:
            bits = rng.range(1, w); x = (M - (rng.next() & ((1 << bits) - 1))) & M     # near the top of the range
        out.add(x)
    return out

def as_type(t, p):
    w, s = TY[t]
    return p - (1 << w) if s and p >= (1 << (w - 1)) else p

FN1_TEMPLATES = ["clz_template", "ctz_template", "ffs_template", "integer_log2_floor_template", "is_power_of_two_template",
                 "round_up_to_power_of_two_template", "round_down_to_power_of_two_template", "sgn"]
FN1_OVERLOADS = ["clz", "ctz", "ffs", "popcount", "integer_log2_floor", "integer_log2_ceil", "is_power_of_two",
                 "round_up_to_power_of_two", "round_down_to_power_of_two"]
FN1_FIXED = {"u8": ["popcount_generic8"], "u16": ["popcount_generic16", "bswap16_generic", "bswap16"],
             "u32": ["popcount_generic32", "bswap32_generic", "bswap32"], "u64": ["popcount_generic64", "bswap64_generic", "bswap64"]}
FN2_ARITH = ["div_ceil", "round_up", "abs_diff"]
FN2_ROT = ["rol_generic", "rol", "ror_generic", "ror"]

def chunks(l, n):
    for i in range(0, len(l), n):
        yield l[i:i + n]

def gen_integer_cases(scale):
    cases = []
    # bounded-exhaustive: every value of the 8- and 16-bit instantiations, every pair of 8-bit values
    for t in ("u8", "i8", "u16", "i16"):
        lo, hi = trange(t)
        step = 8192 if TY[t][0] == 16 else 256
        for f in FN1_TEMPLATES + FN1_FIXED.get(t, []):
            for c in range(lo, hi + 1, step):
                cases.append("exh %s %s %d %d" % (f, t, c, c + step - 1))
    for t in ("u8", "i8"):
        lo, hi = trange(t)
        for f in FN2_ARITH:
            for c in range(lo, hi + 1, 32):
                cases.append("exh2 %s %s %d %d %d %d" % (f, t, c, c + 31, lo, hi))
    # structured + random values of the 32- and 64-bit types
    for w in (32, 64):
        pats = sorted(structured(w) | randoms(w, 600 * scale))
        for t in ("u%d" % w, "i%d" % w):
            vals = [as_type(t, p) for p in pats]
            for f in FN1_TEMPLATES + FN1_OVERLOADS + FN1_FIXED.get(t, []):
                for ch in chunks(vals, 64):
                    tname = t
                    if w == 64 and f not in FN1_FIXED.get(t, []) and rng.chance(1, 2):
                        tname = "ull" if t == "u64" else "ll"       # the (unsigned) long long instantiation / overload
                    cases.append("val %s %s %s" % (f, tname, " ".join(map(str, ch))))
    # pairs
    for t in ("u16", "i16", "u32", "i32", "u64", "i64"):
        w, s = TY[t]
        lo, hi = trange(t)
        pool = sorted(structured(w) | randoms(w, 200))
        pairs = set()
        n_pairs = 1500 * scale
        while len(pairs) < n_pairs:
            k = rng.below(6)
            if k == 0: a = hi - rng.below(300)                               # top of the range: n + k - 1 overflows
            elif k == 1: a = as_type(t, rng.choice(pool))
            else: a = as_type(t, rng.next() & ((1 << w) - 1))
            j = rng.below(6)
            if j == 0: b = 1 + rng.below(16)
            elif j == 1: b = 1 << rng.below(w - 1)
            elif j == 2: b = as_type(t, rng.choice(pool))
            elif j == 3: b = a
            elif j == 4: b = hi - rng.below(300)
            else: b = as_type(t, rng.next() & ((1 << rng.range(1, w)) - 1))
            if s and rng.chance(3, 4) and a < 0: a = -(a + 1)                 # mostly non-negative n
            pairs.add((a, b))
        pairs |= {(hi, 2), (hi - 1, 3), (hi, hi), (hi, 1), (0, 1), (0, hi), (1, hi), (lo, hi), (hi, lo), (lo, lo), (lo, 1),
                  (-1, 1), (-1, hi), (lo + 1, 2), (lo, 2), (hi - 1, hi), (hi, hi - 1), (0, 2), (0, 3)}
        for _ in range(60):                                                  # k = 1, k = max, n = 0 against arbitrary partners
            x = as_type(t, rng.choice(pool))
            pairs |= {(x, 1), (x, hi), (0, max(1, abs(x))), (hi, max(1, abs(x)))}
        pl = sorted(p_ for p_ in pairs if lo <= p_[0] <= hi and lo <= p_[1] <= hi)
        for f in FN2_ARITH:
            for ch in chunks(pl, 48):
                tname = t
                if w == 64 and rng.chance(1, 2): tname = "ull" if t == "u64" else "ll"
                cases.append("val2 %s %s %s" % (f, tname, " ".join("%d:%d" % p for p in ch)))
    # div_ceil / round_up with operands of two different types (decltype(n + k))
    for _ in range(220 * scale):
        tn, tk = rng.choice(ALL_TYPES), rng.choice(ALL_TYPES)
        if TY[tn] == TY[tk] and rng.chance(3, 4): continue
        (wn, sn), (wk, sk) = TY[tn], TY[tk]
        lon, hin = trange(tn); lok, hik = trange(tk)
        pairs = set()
        while len(pairs) < 24:
            r = rng.below(8)
            if r == 0: a = hin - rng.below(20)
            elif r == 1: a = 0
            elif r == 2 and sn: a = rng.choice([-1, lon, lon + 1, -rng.range(1, 1000)])
            elif r == 3: a = rng.below(1000)
            else: a = as_type(tn, rng.next() & ((1 << rng.range(1, wn)) - 1))
            if sn and a < 0 and rng.chance(1, 2): a = -(a + 1)
            if not (lon <= a <= hin): a = a % (hin + 1)
            j = rng.below(7)
            if j == 0: b = 1
            elif j == 1: b = hik
            elif j == 2: b = hik - rng.below(20)
            elif j == 3: b = 1 + rng.below(16)
            elif j == 4: b = 1 << rng.below(wk - 1)
            else: b = max(1, as_type(tk, rng.next() & ((1 << rng.range(1, wk - (1 if sk else 0))) - 1)))
            if b < 1: b = 1
            if b > hik: b = 1 + b % hik
            pairs.add((a, b))
        for f in ("div_ceil", "round_up"):
            cases.append("valm %s %s %s %s" % (f, tn, tk, " ".join("%d:%d" % p_ for p_ in sorted(pairs))))
    # byte-range popcount: every start offset 0..9 behind an aligned address x every length 0..40
    for start in range(10):
        for ln in range(41):
            mode = rng.below(4)
            bs = [0xFF if mode == 0 else (0 if mode == 1 else (rng.next() & 0xFF)) for _ in range(ln)]
            cases.append("prange %d %s" % (start, " ".join(map(str, bs))))
    # byte ranges with about 2^32 one bits (2 MiB of real memory mapped back to back): the bit count does not fit 32 bits
    big = [(256, 4096, 4096), (256, 4097, 4096), (256, 4096, 4097), (255, rng.below(4096), rng.below(4096)),
           (260, rng.below(4096), rng.below(4096)), (256, rng.below(9), rng.below(9)), (257, 4096 + rng.range(1, 3 << 20), rng.below(64))]
    if scale > 1:
        big += [(2050, rng.below(4096), rng.below(4096)),          # 4.1 GiB: the byte length does not fit 32 bits either
                (512, rng.below(4096), rng.below(4096)), (513, 4096 + rng.below(1 << 22), 4096 + rng.below(1 << 22))] + \
               [(rng.range(250, 270), rng.below(8192), rng.below(8192)) for _ in range(12)]
    for nch, sk, ct in big:
        cases.append("pbig %d %d %d" % (nch, sk, ct))
    if scale > 1:
        for _ in range(3000):
            ln = rng.range(0, 200)
            cases.append("prange %d %s" % (rng.below(16), " ".join(str(rng.next() & 0xFF) for _ in range(ln))))
    for t in ("u32", "u64"):
        w, s = TY[t]
        pool = sorted(structured(w) | randoms(w, 100))
        counts = list(range(-70, 71)) + [INT_MIN, INT_MIN + 1, INT_MAX, INT_MAX - 1, 1 << 30, -(1 << 30), 255, 256, 257, -255, -256, -257]
        pairs = set()
        while len(pairs) < 3000 * scale:
            pairs.add((rng.choice(pool), rng.choice(counts) if rng.chance(7, 8) else as_type("i32", rng.next() & 0xFFFFFFFF)))
        pl = sorted(pairs)
        for f in FN2_ROT:
            for ch in chunks(pl, 48):
                cases.append("val2 %s %s %s" % (f, t, " ".join("%d:%d" % p for p in ch)))
    return cases

OFFSETS = [10 ** 6, 10 ** 8, 10 ** 9, 10 ** 12, -10 ** 8]

def cluster_value(rng, off, kind, width):
    """a value off + small, exactly representable as a double (|off| < 2^40, at most 10 fraction bits)"""
    if kind == 0:                       # integers off + 0..width
        return "%d" % (off + rng.range(0, width))
    k = rng.range(0, width * 1024)      # multiples of 1/1024 (spread down to ~1e-3)
    return "%d/1024" % (off * 1024 + k)

def pick_cluster(rng):
    off = rng.choice(OFFSETS)
    kind = rng.below(2)
    if kind == 0: width = rng.choice([1, 2, 6, 10])
    else: width = rng.choice([0, 0, 1, 2, 10]) if rng.chance(1, 2) else -1
    return off, kind, width

def cluster_val(rng, cl):
    off, kind, width = cl
    if kind == 1 and width <= 0:        # spread of the order 1e-3 .. 1e-2
        return "%d/1024" % (off * 1024 + rng.range(0, 1 if width == -1 else 10))
    return cluster_value(rng, off, kind, width)

# value families per Aggregate element type: double takes everything; float only values with <= 24 significant bits;
# int / size_t only integers (size_t non-negative); all values exactly representable in the type
KIND_VM = {"agg": [0, 1, 2, 3, 4, 5, 6, 7], "aggf": [0, 1, 2, 3, 4], "aggi": [0, 3, 8, 9], "aggz": [10, 11, 12]}

def gen_agg(rng, kind="agg"):
    nops = rng.range(2, 45)
    vm = rng.choice(KIND_VM[kind])
    ioff = rng.choice([10 ** 6, 10 ** 9, -10 ** 8]); zoff = rng.choice([10 ** 6, 10 ** 12, 0])
    heavy = rng.below(3)
    const = rng.range(-50, 50)
    cl = pick_cluster(rng); cl2 = pick_cluster(rng)
    ops = []
    size = [0, 0, 0]
    while len(ops) < nops:
        r = rng.below(100)
        i = rng.below(3)
        if r < (35 if heavy == 0 else 60):
            if vm == 0: v = "%d" % rng.range(-20, 20)
            elif vm == 1: v = "%d/8" % rng.range(-8000, 8000)
            elif vm == 2: v = "%d/8" % (8000 + rng.range(-9, 9))
            elif vm == 3: v = "%d" % const
            elif vm == 4: v = "%d/4" % rng.range(0, 400)
            elif vm == 8: v = "%d" % rng.range(-1000, 1000)
            elif vm == 9: v = "%d" % (ioff + rng.range(0, 10))
            elif vm == 10: v = "%d" % rng.range(0, 400)
            elif vm == 11: v = "%d" % (zoff + rng.range(0, 10))
            elif vm == 12: v = "%d" % rng.choice([0, 1, 2 ** 31, 2 ** 40 + 3, 7])
            elif vm in (5, 6): v = cluster_val(rng, cl)                         # large common offset, small spread
            else: v = cluster_val(rng, cl if rng.chance(1, 2) else cl2) if rng.chance(2, 3) else "%d/8" % rng.range(-80, 80)   # mixed magnitudes
            ops.append("A,%d,%s" % (i, v)); size[i] += 1
        elif r < 78:
            j, k = rng.below(3), rng.below(3)
            if size[j] + size[k] > 300: continue
            ops.append("P,%d,%d,%d" % (i, j, k)); size[i] = size[j] + size[k]
        elif r < 94:
            j = rng.below(3)
            if size[i] + size[j] > 300: continue
            ops.append("PA,%d,%d" % (i, j)); size[i] += size[j]
        else: ops.append("R,%d" % i); size[i] = 0
    return kind + " " + " ".join(ops)

def gen_agg_offset(rng):
    """operands of 1..50 values around a large common offset, combined by +, += and chains of three"""
    cl = pick_cluster(rng)
    mixed = rng.chance(1, 6)
    cls = [cl, pick_cluster(rng) if mixed else cl, pick_cluster(rng) if mixed and rng.chance(1, 2) else cl]
    ops = []
    small = rng.chance(1, 2)
    for i in range(3):
        n = rng.range(1, 8) if small else rng.range(1, 50)
        if i == 2 and rng.chance(1, 4): n = 0
        for _ in range(n): ops.append("A,%d,%s" % (i, cluster_val(rng, cls[i])))
    shape = rng.below(8)
    if shape == 0: ops += ["P,2,0,1"]
    elif shape == 1: ops += ["PA,0,1"]
    elif shape == 2: ops += ["PA,0,1", "PA,0,2"]                 # chain of three with +=
    elif shape == 3: ops += ["P,0,0,1", "P,0,0,2"]               # chain of three with +
    elif shape == 4: ops += ["P,1,1,2", "PA,0,1"]                # a += (b + c)
    elif shape == 5: ops += ["PA,1,2", "P,2,0,1"]                # a + (b += c)
    elif shape == 6: ops += ["P,2,0,1", "A,2,%s" % cluster_val(rng, cls[0]), "PA,2,0"]
    else: ops += ["PA,0,1", "A,0,%s" % cluster_val(rng, cls[1]), "P,1,0,2", "PA,1,1"]
    return "agg " + " ".join(ops)

DBL_MAX = Fraction((2 ** 53 - 1) * 2 ** 971)
U = Fraction(1, 2 ** 53)
agg_margin = [Fraction(0)]     # largest observed |error| / tolerance over the run (evidence)

def gen_aggk(rng):
    """Aggregate<double> histories with huge counts: K,i,c,v = the Aggregate of c copies of v (initializing constructor).
    Counts of 2^32 and more per operand are included: the product of the counts exceeds 2^64 (defect 07, fixed)."""
    ops = []; size = [0, 0, 0]
    nops = rng.range(3, 10)
    cl = pick_cluster(rng) if rng.chance(1, 3) else None
    while len(ops) < nops:
        r = rng.below(100); i = rng.below(3)
        v = cluster_val(rng, cl) if cl else "%d/8" % rng.range(-400, 400)
        if r < 40:
            c = rng.choice([1, 2, 5, 1000, 2 ** 20, 2 ** 31, 2 ** 32, 2 ** 32 + 1, 3037000500, 9111001500, 2 ** 33, 2 ** 40])
            ops.append("K,%d,%d,%s" % (i, c, v)); size[i] = c
        elif r < 55: ops.append("A,%d,%s" % (i, v)); size[i] += 1
        elif r < 80:
            j, k = rng.below(3), rng.below(3)
            if size[j] + size[k] >= 2 ** 52: continue               # counts stay exactly representable as doubles
            ops.append("P,%d,%d,%d" % (i, j, k)); size[i] = size[j] + size[k]
        else:
            j = rng.below(3)
            if size[i] + size[j] >= 2 ** 52: continue
            ops.append("PA,%d,%d" % (i, j)); size[i] += size[j]
    return "aggk " + " ".join(ops)

def cmp_aggk(case, impl_line, model_line):
    """weighted exact reference (value -> multiplicity); returns (impl message or None, model message or None)"""
    g = [{}, {}, {}]
    def merge(a, b):
        r = dict(a)
        for v, c in b.items(): r[v] = r.get(v, 0) + c
        return r
    toks = case.split()[1:]
    for tok in toks:
        f = tok.split(",")
        if f[0] == "A": g[int(f[1])] = merge(g[int(f[1])], {Fraction(f[2]): 1})
        elif f[0] == "K": g[int(f[1])] = {Fraction(f[3]): int(f[2])}
        elif f[0] == "P": g[int(f[1])] = merge(g[int(f[2])], g[int(f[3])])
        elif f[0] == "PA": g[int(f[1])] = merge(g[int(f[1])], g[int(f[2])])
        elif f[0] == "R": g[int(f[1])] = {}
    N = len(toks) + 1
    ig = [grp.split() for grp in impl_line.split(" | ")]
    if len(ig) != 3 or any(len(x) != 8 for x in ig): return ("unparsable output: %r" % impl_line[:100], None)
    mbad = None
    try: mg = [grp.split() for grp in model_line.split(" | ")]
    except Exception: mg = None
    for i in range(3):
        w = g[i]; n = sum(w.values())
        if ig[i][7] != "ACC-OK": return ("variable %d: accessor inconsistent: %s" % (i, ig[i][7]), None)
        if n == 0:
            want = (0, Fraction(0), Fraction(0), Fraction(0), DBL_MAX, -DBL_MAX); M = R = Fraction(0); nvar = Fraction(0)
        else:
            S = sum(v * c for v, c in w.items()); m = S / n
            nvar = sum((v - m) ** 2 * c for v, c in w.items())
            M = max(abs(v) for v in w); R = max(w) - min(w)
            want = (n, m, nvar / (n - 1) if n > 1 else Fraction(0), nvar / n if n > 1 else Fraction(0), min(w), max(w))
        try:
            mv = (int(mg[i][0]),) + tuple(parse_model_q(x) for x in mg[i][1:])
            if mv != want: mbad = "variable %d: model %s, weighted reference %s" % (i, mg[i], [str(x) for x in want])
        except Exception:
            mbad = "unparsable model output %r" % model_line[:100]
        # few operations on many values: relative error of nvar ~ N u (1 + M / R), plus n (N u M)^2 from the means
        tm = 16 * N * U * M
        tn = (64 * N * U * (1 + M / R) * nvar if R > 0 else 0) + 16 * n * (N * U * M) ** 2
        tol = (0, tm, tn / (n - 1) if n > 1 else 0, tn / n if n > 1 else 0, 0, 0)
        names = ("count", "mean", "variance(1)", "variance(0)", "min", "max")
        for k in range(6):
            try: got = Fraction(ig[i][k]) if k == 0 else Fraction(float(ig[i][k]))
            except (ValueError, OverflowError): return ("variable %d %s: got %s" % (i, names[k], ig[i][k]), mbad)
            if abs(got - want[k]) > tol[k]:
                return ("variable %d %s: got %s, exact value %.17g, |error| %.3g > tolerance %.3g (count %d, magnitude %.3g, range %.3g)"
                        % (i, names[k], ig[i][k], float(want[k]), float(abs(got - want[k])), float(tol[k]), n, float(M), float(R)), mbad)
    return (None, mbad)

FLT_MAX = Fraction((2 ** 24 - 1) * 2 ** 104)
AGG_SENTINEL = {"agg": (DBL_MAX, -DBL_MAX), "aggf": (FLT_MAX, -FLT_MAX),
                "aggi": (Fraction(2 ** 31 - 1), Fraction(-2 ** 31)), "aggz": (Fraction(2 ** 64 - 1), Fraction(0))}
AGG_TYPE = {"agg": "Aggregate<double>", "aggf": "Aggregate<float>", "aggi": "Aggregate<int>", "aggz": "Aggregate<size_t>"}

def agg_reference(case):
    """independent exact reference: the multiset each variable stands for, then the textbook definitions"""
    g = [[], [], []]
    combined = False
    for tok in case.split()[1:]:
        f = tok.split(",")
        if f[0] == "A": g[int(f[1])] = g[int(f[1])] + [Fraction(f[2])]
        elif f[0] == "P":
            if g[int(f[2])] and g[int(f[3])]: combined = True
            g[int(f[1])] = g[int(f[2])] + g[int(f[3])]
        elif f[0] == "PA":
            if g[int(f[1])] and g[int(f[2])]: combined = True
            g[int(f[1])] = g[int(f[1])] + g[int(f[2])]
        elif f[0] == "R": g[int(f[1])] = []
    res = []
    for l in g:
        n = len(l)
        if n == 0:
            hi_, lo_ = AGG_SENTINEL[case.split()[0]]
            res.append((0, Fraction(0), Fraction(0), Fraction(0), hi_, lo_, Fraction(0), Fraction(0))); continue
        m = sum(l) / n
        ss = sum((x - m) ** 2 for x in l)
        res.append((n, m, ss / (n - 1) if n > 1 else Fraction(0), ss / n if n > 1 else Fraction(0), min(l), max(l),
                    max(abs(x) for x in l), max(l) - min(l)))
    return res, combined

def parse_model_q(s):
    if s == "MAX": return DBL_MAX
    if s == "-MAX": return -DBL_MAX
    a, b = s.split("/")
    return Fraction(int(a, 0), int(b, 0))

def cmp_agg(case, impl_line, model_line):
    """returns (impl_bad: str or None, model_bad: str or None)"""
    ref, _ = agg_reference(case)
    try:
        mparts = model_line.split(" || ")
        mg = [[x for x in grp.split()] for grp in mparts[0].split(" | ")]
        mg2 = [[x for x in grp.split()] for grp in mparts[1].split(" | ")]
        ig = [grp.split() for grp in impl_line.split(" | ")]
    except Exception as e:
        return ("unparsable output: %r" % impl_line[:100], None)
    model_bad = None
    for i in range(3):
        mv = (int(mg[i][0]),) + tuple(parse_model_q(x) for x in mg[i][1:])
        mv2 = (int(mg2[i][0]),) + tuple(parse_model_q(x) for x in mg2[i][1:])
        if mv != ref[i][:6] or mv2 != ref[i][:6]:
            model_bad = "variable %d: model %s / model-feed-all %s / reference %s" % (i, mg[i], mg2[i], [str(x) for x in ref[i][:6]])
    for i in range(3):
        if len(ig) != 3 or len(ig[i]) != 8:
            return ("unparsable output: %r" % impl_line[:100], model_bad)
        if ig[i][7] != "ACC-OK":
            return ("variable %d: accessor inconsistent with count/mean/variance/min/max: %s" % (i, ig[i][7]), model_bad)
        n, m, v1, v0, mn, mx, M, R = ref[i]
        names = ("count", "mean", "variance(1)", "variance(0)", "min", "max")
        # Forward error of the numerically stable formulas (Welford update, Chan et al. pairwise combination) in
        # double precision, u = 2^-53, for n values of magnitude <= M and range R = max - min:
        #   |mean - exact| <= c n u M,   |nvar - exact| <= c (n^2 u M R + n^3 u^2 M^2 + n u R^2)
        # (every delta is a difference of values/means within the range R, carrying the mean's error n u M).
        # A formula that forms sums of squares has error ~ n u M^2 instead, i.e. larger by the factor M / (n R).
        tm = 16 * n * U * M
        tn = 16 * (n * n * U * M * R + n ** 3 * U * U * M * M + n * U * R * R)
        tol = (0, tm, tn / (n - 1) if n > 1 else 0, tn / n if n > 1 else 0, 0, 0)
        for k in range(6):
            want = ref[i][k]
            try:
                got = Fraction(ig[i][k]) if (k == 0 or (k >= 4 and case.split()[0] in ("aggi", "aggz"))) else Fraction(float(ig[i][k]))
            except (ValueError, OverflowError):
                return ("variable %d %s: got %s, exact value %s" % (i, names[k], ig[i][k], float(want)), model_bad)
            err = abs(got - want)
            if err > tol[k]:
                return ("variable %d %s: got %s, exact value %.17g, |error| %.3g > tolerance %.3g (values fed: %d, magnitude %.3g, range %.3g)"
                        % (i, names[k], ig[i][k], float(want), float(err), float(tol[k]), n, float(M), float(R)), model_bad)
            if tol[k] > 0 and err / tol[k] > agg_margin[0]: agg_margin[0] = err / tol[k]
        # sum() / total() = static_cast<Type>(count * mean): exact sum within the mean's error, the rounding of the
        # conversion to Type (float: 2^-24 relative; integral: truncation, < 1), when the sum is representable in Type
        S = m * n
        kind = case.split()[0]
        representable = {"agg": True, "aggf": abs(S) < FLT_MAX, "aggi": -2 ** 31 < S < 2 ** 31 - 1, "aggz": 0 <= S < 2 ** 63}[kind]
        if representable:
            ts = n * tm + {"agg": abs(S) * 4 * U, "aggf": abs(S) / 2 ** 23, "aggi": 1, "aggz": 1}[kind]
            try:
                gs = Fraction(ig[i][6]) if kind in ("aggi", "aggz") else Fraction(float(ig[i][6]))
            except (ValueError, OverflowError):
                return ("variable %d sum(): got %s, exact value %s" % (i, ig[i][6], float(S)), model_bad)
            if abs(gs - S) > ts:
                return ("variable %d sum(): got %s, exact value %.17g (tolerance %.3g)" % (i, ig[i][6], float(S), float(ts)), model_bad)
    return (None, model_bad)


# ------------------------------------------------------------------ API surface anchored by the property, and what the harness calls
INT6 = "int, unsigned, long, unsigned long, long long, unsigned long long"
T10 = "uint8_t, int8_t, uint16_t, int16_t, uint32_t/unsigned, int32_t/int, unsigned long (uint64_t), long (int64_t), unsigned long long, long long"
API_SURFACE = [
    {"function": "clz_template<T>, ctz_template<T>, ffs_template<T>, integer_log2_floor_template<T>, is_power_of_two_template<T>, round_up_to_power_of_two_template<T>, round_down_to_power_of_two_template<T>", "instantiations": T10, "called": True, "note": "8/16 bit: every value; long long instantiations chosen per case from the seed (added in the overload audit)"},
    {"function": "clz<T>", "overloads": INT6, "called": True, "note": "long and long long both called on every 64-bit case and required to agree"},
    {"function": "ctz<T>", "overloads": INT6, "called": True},
    {"function": "ffs", "overloads": INT6, "called": True},
    {"function": "popcount", "overloads": INT6, "called": True},
    {"function": "popcount_generic8/16/32/64", "overloads": "uint8_t/uint16_t/uint32_t/uint64_t", "called": True},
    {"function": "popcount(const void* data, size_t size)", "overloads": "byte range", "called": True, "note": "added in the overload audit: start offsets 0..9 behind an 8-byte aligned address x lengths 0..40 (thorough: random lengths up to 200); ranges of 510..1026 MiB with 2^32 - 8, 2^32, 2^32 + 2^26 (thorough: 2^33) one bits at unaligned starts/ends (return value does not fit 32 bits)"},
    {"function": "integer_log2_floor, integer_log2_ceil", "overloads": INT6, "called": True},
    {"function": "is_power_of_two, round_up_to_power_of_two, round_down_to_power_of_two", "overloads": INT6, "called": True},
    {"function": "uint8_t / uint16_t arguments to the overloaded functions", "overloads": "promote to the int overload (no separate code)", "called": False, "note": "covered by the int overloads; the 8/16-bit template instantiations are called directly"},
    {"function": "bswap16, bswap32, bswap64, bswap16_generic, bswap32_generic, bswap64_generic", "overloads": "uint16_t/uint32_t/uint64_t", "called": True},
    {"function": "rol32, rol64, ror32, ror64, rol32_generic, rol64_generic, ror32_generic, ror64_generic", "overloads": "(uintN_t, int)", "called": True},
    {"function": "div_ceil<N,K>, round_up<N,K>", "instantiations": "same type: " + T10 + "; mixed: every ordered pair of these 10 types (decltype(n + k), signed n with unsigned k included)", "called": True, "note": "long long and all mixed pairs added in the overload audit"},
    {"function": "abs_diff<T>, sgn<T>", "instantiations": T10, "called": True, "note": "long long instantiations added in the overload audit; sgn of floating-point types is outside the property (integer helpers)"},
    {"function": "Aggregate<Type>: default ctor, add, operator+, operator+=, copy/assignment, count, mean, variance(ddof=0,1), min, max, sum", "instantiations": "double, float, int, size_t", "called": True, "note": "compared with the exact model / reference; float, int, size_t added in the overload audit"},
    {"function": "Aggregate<Type>: average, avg, total, var, standard_deviation, stdev (ddof 0, 1 and default), span, serialize(Archive&), Aggregate(count, mean, nvar, min, max)", "instantiations": "double, float, int, size_t", "called": True, "note": "checked inside the harness for consistency with mean/sum/variance/min/max (stdev = sqrt(variance), span = max - min for non-empty, serialize + initializing constructor round trip); added in the overload audit"},
    {"function": "sgn<T> for floating-point T (double, float, long double)", "instantiations": "outside the integer property; exercised for the sign incl. -0.0 and NaN", "called": True, "note": "added in the hypothesis audit"},
    {"function": "Aggregate<double> with counts up to 2^31 per operand (initializing constructor = c copies of v)", "instantiations": "double", "called": True, "note": "added in the hypothesis audit; counts of 2^32 and more per operand (product beyond 2^64; defect 07, fixed); judged by the exact weighted reference, model compared exactly"},
    {"function": "MSVC and generic #else branches of clz/ctz/ffs/popcount/integer_log2_floor/bswap/rol/ror", "overloads": "not compiled by g++/clang on x86-64", "called": False, "note": "the templates they forward to are called directly"},
]

# ------------------------------------------------------------------ cases
corpus = [l.strip() for l in open(os.path.join(verif.VERIF, "corpus", "C20", "cases.txt")) if l.strip() and not l.startswith("#")]
if ck.replay:
    cases = [json.load(open(ck.replay))["case"]]
else:
    scale = 8 if ck.thorough() else 1
    cases = list(corpus) + gen_integer_cases(scale)
    for k in range(12000 if ck.thorough() else 1500):
        cases.append(gen_agg(rng))
    for k in range(6000 if ck.thorough() else 700):
        cases.append(gen_agg_offset(rng))
    for k in range(4000 if ck.thorough() else 450):
        cases.append(gen_agg(rng, rng.choice(["aggf", "aggi", "aggz"])))      # Aggregate<float>, <int>, <size_t>
    for k in range(2000 if ck.thorough() else 150):
        cases.append(gen_aggk(rng))                                            # counts up to 2^31 through the initializing constructor
    cases.append("sgnf 5/2 -5/2 0 -0 nan 1/1024 -1/1024 1e300 -1e300 " + " ".join("%d/8" % rng.range(-100, 100) for _ in range(20)))
    if ck.thorough():
        pass  # the full 2^32 sweep is run separately below (4 processes, unsanitized -O2 build)
    cases.append("sweep32 %d %d %d" % (rng.below(1 << 32), 1031 * (2 * rng.below(1000) + 1), 1 << 21))
casefile = os.path.join(ck.scratch, "cases.txt")

# ------------------------------------------------------------------ build
hdr = os.path.join(verif.REPO, "tlx", "math", "round_to_power_of_two.hpp")
have_tmpl = os.path.exists(hdr) and "round_down_to_power_of_two_template" in open(hdr, errors="replace").read()
extra = ["-DC20_HAVE_RDOWN_TEMPLATE"] if have_tmpl else []
exe, log = ck.build_cpp("c20_harness", ["harness/C20/math_harness.cpp"], extra=extra)
drv, dlog = ck.ocaml_driver("C20")

def run_impl(cs):
    """runs the harness; a crash (sanitizer abort) is attributed to the first case without an output line.
    returns (lines, crashes) where lines[i] is None for a crashing case"""
    lines = [None] * len(cs)
    crashes = []
    start = 0
    while start < len(cs) and len(crashes) < 3:
        f = os.path.join(ck.scratch, "part.txt")
        open(f, "w").write("\n".join(cs[start:]) + "\n")
        rc, out = verif.sh([exe, f], timeout=3000)
        got = [l for l in out.splitlines()]
        if rc == 0:
            for i, l in enumerate(got[:len(cs) - start]): lines[start + i] = l
            return lines, crashes
        # crashed: output lines before the sanitizer report belong to finished cases
        k = 0
        while k < len(got) and k < len(cs) - start and not (got[k].startswith("=") or "runtime error" in got[k] or "Sanitizer" in got[k]):
            lines[start + k] = got[k]; k += 1
        crashes.append((start + k, "\n".join(got[k:])[-2500:]))
        start = start + k + 1
    return lines, crashes

def single_value_cases(case):
    tok = case.split()
    if tok[0] in ("val", "val2"):
        return [" ".join(tok[:3] + [v]) for v in tok[3:]]
    if tok[0] == "valm":
        return [" ".join(tok[:4] + [v]) for v in tok[4:]]
    if tok[0] == "exh":
        return ["val %s %s %d" % (tok[1], tok[2], x) for x in range(int(tok[3]), int(tok[4]) + 1)]
    if tok[0] == "exh2":
        return ["val2 %s %s %d:%d" % (tok[1], tok[2], a, b) for a in range(int(tok[3]), int(tok[4]) + 1) for b in range(int(tok[5]), int(tok[6]) + 1)]
    return [case]

found = False
stats = {"exhaustive_8_16_bit": 0, "values_32_64_bit": 0, "pairs": 0, "mixed_type_pairs": 0, "byte_ranges": 0, "aggregate_histories": 0, "sweep32_values": 0}
nontriv = 0
evaluations = 0
samples = []
model_issue = None

def inputs_of(case):
    tok = case.split()
    if tok[0] == "exh": return [(x,) for x in range(int(tok[3]), int(tok[4]) + 1)]
    if tok[0] == "exh2": return [(a, b) for a in range(int(tok[3]), int(tok[4]) + 1) for b in range(int(tok[5]), int(tok[6]) + 1)]
    if tok[0] == "val": return [(int(v),) for v in tok[3:]]
    if tok[0] == "val2": return [tuple(int(z) for z in v.split(":")) for v in tok[3:]]
    return []

if exe is None:
    ck.violation("correspondence harness does not compile against /repo", {"correspondence": "harness/C20/math_harness.cpp", "log": log[-2000:]}, no_input=True)
elif drv is None:
    ck.violation("extracted model/driver does not build", {"correspondence": "ocaml/C20_driver.ml", "log": dlog[-2000:]}, no_input=True)
else:
    open(casefile, "w").write("\n".join(cases) + "\n")
    impl, crashes = run_impl(cases)
    rc2, out2 = verif.sh([drv, casefile], timeout=3000)
    model = out2.splitlines()
    if rc2 != 0 or len(model) != len(cases):
        ck.violation("extracted model driver failed", {"correspondence": "ocaml/C20_driver.ml", "log": out2[-1500:]}, no_input=True)
        model = model + ["<missing>"] * (len(cases) - len(model))
    for idx, logtail in crashes:
        found = True
        c = cases[idx]
        # narrow to a single input
        one = c
        for sc in single_value_cases(c):
            f1 = os.path.join(ck.scratch, "one.txt"); open(f1, "w").write(sc + "\n")
            r, o = verif.sh([exe, f1], timeout=120)
            if r != 0: one = sc; logtail = o[-2500:]; break
        ck.violation("real code aborts under ASan/UBSan on an input of the documented domain: " + one[:200],
                     {"case": one, "log_tail": logtail, "replay_cmd": "bin/check C20 --replay <this file>"})
    seen_kinds = set()
    for idx, c in enumerate(cases):
        a = impl[idx]; b = model[idx]
        if a is None: continue
        tok = c.split()
        kind = tok[0]
        if kind == "sweep32":
            n = int(tok[3]); evaluations += n; stats["sweep32_values"] += n
            if not a.startswith("SWEEP ok"):
                found = True
                ck.violation("32-bit entry point differs from the bit-loop reference: " + a, {"case": c, "impl": a})
            else:
                nontriv += int(a.split("nontrivial=")[1])
            continue
        if kind == "aggk":
            evaluations += 1; stats["aggregate_histories"] += 1; stats["aggregate_large_counts"] = stats.get("aggregate_large_counts", 0) + 1
            nontriv += 1 if ("P," in c or "PA," in c) else 0
            bad, mbad_k = cmp_aggk(c, a, b)
            if mbad_k and model_issue is None: model_issue = (c, mbad_k)
            if bad:
                found = True
                ck.violation("Aggregate<double> (counts set through the initializing constructor) differs from the exact weighted reference: " + bad,
                             {"case": c, "impl": a, "replay_cmd": "bin/check C20 --replay <this file>"})
            if kind not in seen_kinds: seen_kinds.add(kind); samples.append({"case": c, "impl": a})
            continue
        if kind == "sgnf":
            vals = tok[1:]
            got = a.split()
            evaluations += 3 * len(vals); stats["sgn_floating"] = 3 * len(vals)
            for k_, v in enumerate(vals):
                want = 0 if v in ("nan", "-0", "0") else (1 if float(Fraction(v)) > 0 else -1) if "e" not in v else (1 if float(v) > 0 else -1)
                if got[3 * k_: 3 * k_ + 3] != [str(want)] * 3:
                    found = True
                    ck.violation("sgn<double/float/long double>(%s) = %s, expected %d" % (v, got[3 * k_: 3 * k_ + 3], want), {"case": "sgnf " + v, "impl": a})
                    break
            continue
        if kind == "pbig":
            evaluations += 1; stats["byte_ranges_huge"] = stats.get("byte_ranges_huge", 0) + 1
            want = pbig_expected(int(tok[1]), int(tok[2]), int(tok[3]))
            if want is not None and want >= 2 ** 32: nontriv += 1
            if a.strip().startswith("SETUP-FAILED"):
                ck.violation("harness could not build the huge virtual range: " + a.strip(), {"correspondence": "harness/C20/math_harness.cpp run_pbig", "case": c}, no_input=True)
            elif want is not None and a.strip() != str(want):
                found = True
                ck.violation("popcount(const void*, size_t) on a range of %d bytes with %d one bits returned %s" % (2 * PB_PAGE + int(tok[1]) * PB_CHUNK - int(tok[2]) - int(tok[3]), want, a.strip()),
                             {"case": c, "impl": a, "reference": str(want), "layout": "4096-byte sparse page, nchunks x 2 MiB of 0xFF (one memfd mapped back to back), 4096-byte sparse page; range = [skip, total - cut)",
                              "replay_cmd": "bin/check C20 --replay <this file>"})
            if kind not in seen_kinds: seen_kinds.add(kind); samples.append({"case": c, "impl": a, "expected": str(want)})
            continue
        if kind == "prange":
            evaluations += 1; stats["byte_ranges"] += 1
            bs = [int(x) for x in tok[2:]]
            want = sum(bin(x).count("1") for x in bs)
            if any(x not in (0, 255) for x in bs): nontriv += 1
            if a.strip() != str(want):
                found = True
                ck.violation("popcount(const void*, size_t) on %d bytes at offset %s behind an aligned address = %s, number of one bits is %d (model: %s)" % (len(bs), tok[1], a.strip(), want, b.strip()),
                             {"case": c, "impl": a, "reference": str(want), "model": b, "replay_cmd": "bin/check C20 --replay <this file>"})
            elif b.strip() != str(want) and model_issue is None:
                model_issue = (c, "popcount_range model %s, reference %d" % (b.strip(), want))
            if kind not in seen_kinds and len(bs) > 12: seen_kinds.add(kind); samples.append({"case": c, "impl": a})
            continue
        if kind == "valm":
            fn, tn, tk = tok[1], tok[2], tok[3]
            ins = [tuple(int(z) for z in v.split(":")) for v in tok[4:]]
            ia = a.split(); mb = b.split()
            evaluations += len(ins); stats["mixed_type_pairs"] += len(ins)
            if len(ia) != len(ins) or len(mb) != len(ins):
                ck.violation("output length mismatch on case " + c[:120], {"correspondence": "harness/driver output format", "case": c, "impl": a[:300], "model": b[:300]}, no_input=True)
                continue
            for k, (n_, k_) in enumerate(ins):
                r = ref2m(fn, tn, tk, n_, k_)
                if k_ > 0 and n_ % k_ != 0: nontriv += 1
                x, y = ia[k], mb[k]
                if r is not None and x != str(r):
                    found = True
                    one = "valm %s %s %s %d:%d" % (fn, tn, tk, n_, k_)
                    ck.violation("%s<%s,%s>(%d, %d) = %s, mathematical definition gives %s (model: %s)" % (fn, tn, tk, n_, k_, x, r, y),
                                 {"case": one, "impl": x, "reference": str(r), "model": y, "replay_cmd": "bin/check C20 --replay <this file>"})
                    break
                if r is not None and y != str(r) and model_issue is None:
                    model_issue = (c, "%s<%s,%s>(%d,%d): model %s, reference %s" % (fn, tn, tk, n_, k_, y, r))
                if x != y and model_issue is None:
                    model_issue = (c, "%s<%s,%s>(%d,%d): impl %s, model %s (no claim by the property for this input)" % (fn, tn, tk, n_, k_, x, y))
            if (kind, fn) not in seen_kinds: seen_kinds.add((kind, fn)); samples.append({"case": " ".join(tok[:9]) + " ...", "impl": " ".join(ia[:5]) + " ..."})
            if ck.violations >= 6: break
            continue
        if kind in ("agg", "aggf", "aggi", "aggz"):
            evaluations += 1; stats["aggregate_histories"] += 1; stats["aggregate_" + AGG_TYPE[kind]] = stats.get("aggregate_" + AGG_TYPE[kind], 0) + 1
            ibad, mbad = cmp_agg(c, a, b)
            if agg_reference(c)[1]: nontriv += 1
            if mbad and model_issue is None: model_issue = (c, mbad)
            if ibad:
                found = True
                ck.violation(AGG_TYPE[kind] + " differs from feeding all values into one Aggregate (exact reference): " + ibad,
                             {"case": c, "impl": a, "model": b[:400], "replay_cmd": "bin/check C20 --replay <this file>"})
                if ck.violations >= 6: break
            if kind not in seen_kinds: seen_kinds.add(kind); samples.append({"case": c, "impl": a, "model": b.split(" || ")[0]})
            continue
        ins = inputs_of(c)
        fn, t = tok[1], tok[2]
        ia = a.split(); mb = b.split()
        evaluations += len(ins)
        stats["exhaustive_8_16_bit" if kind.startswith("exh") else ("values_32_64_bit" if kind == "val" else "pairs")] += len(ins)
        if len(ia) != len(ins) or len(mb) != len(ins):
            ck.violation("output length mismatch on case " + c[:120], {"correspondence": "harness/driver output format", "case": c, "impl": a[:300], "model": b[:300]}, no_input=True)
            continue
        two = kind in ("exh2", "val2")
        for k, inp in enumerate(ins):
            r = ref2(fn, t, *inp) if two else ref1(fn, t, *inp)
            if (nontrivial2(fn, t, *inp) if two else nontrivial1(inp[0])): nontriv += 1
            x, y = ia[k], mb[k]
            if r is not None and x != str(r):
                found = True
                one = "%s %s %s %s" % ("val2" if two else "val", fn, t, ":".join(map(str, inp)))
                ck.violation("%s<%s>(%s) = %s, mathematical definition gives %s (model: %s)" % (fn, t, ", ".join(map(str, inp)), x, r, y),
                             {"case": one, "impl": x, "reference": str(r), "model": y, "replay_cmd": "bin/check C20 --replay <this file>"})
                break
            if r is not None and y != str(r) and model_issue is None:
                model_issue = (c, "%s<%s>(%s): model %s, reference %s" % (fn, t, inp, y, r))
            if x != y and model_issue is None:
                model_issue = (c, "%s<%s>(%s): impl %s, model %s (no claim by the property for this input)" % (fn, t, inp, x, y))
        if ck.violations >= 6: break
        if (kind, fn) not in seen_kinds and len(samples) < 8 and kind in ("val", "val2") and t in ("u64", "u32"):
            seen_kinds.add((kind, fn)); samples.append({"case": " ".join(tok[:8]) + " ...", "impl": " ".join(ia[:5]) + " ..."})

    # thorough: all 2^32 values of the 32-bit entry points (unsanitized -O2 build, 4 processes)
    if ck.thorough() and not ck.replay and not found:
        import subprocess
        fast, flog = ck.build_cpp("c20_fast", ["harness/C20/math_harness.cpp"], flags=verif.CXXFLAGS_FAST, extra=extra)
        if fast is None:
            ck.violation("fast harness build failed", {"correspondence": "harness/C20/math_harness.cpp", "log": flog[-1500:]}, no_input=True)
        else:
            procs = []
            for q in range(4):
                f = os.path.join(ck.scratch, "sweep%d.txt" % q)
                open(f, "w").write("sweep32 %d 1 %d\n" % (q << 30, 1 << 30))
                procs.append(subprocess.Popen([fast, f], stdout=subprocess.PIPE, stderr=subprocess.STDOUT, universal_newlines=True))
            procs16 = []
            for q in range(4):
                f = os.path.join(ck.scratch, "sweep16_%d.txt" % q)
                open(f, "w").write("sweep16 %d %d\n" % (q * 16384, q * 16384 + 16383))
                procs16.append((q, subprocess.Popen([fast, f], stdout=subprocess.PIPE, stderr=subprocess.STDOUT, universal_newlines=True)))
            for q, p in enumerate(procs):
                o = p.communicate()[0].strip()
                if o.startswith("SWEEP ok"):
                    evaluations += 1 << 30; stats["sweep32_values"] += 1 << 30; nontriv += int(o.split("nontrivial=")[1])
                else:
                    found = True
                    ck.violation("32-bit entry point differs from the bit-loop reference: " + o[:300], {"case": "sweep32 %d 1 %d" % (q << 30, 1 << 30), "impl": o[:500]})
            for q, p in procs16:
                o = p.communicate()[0].strip()
                if o.startswith("SWEEP ok"):
                    cnt = int(o.split("count=")[1].split()[0]); evaluations += cnt; stats["pairs_16_bit_exhaustive"] = stats.get("pairs_16_bit_exhaustive", 0) + cnt; nontriv += cnt // 2
                else:
                    found = True
                    ck.violation("16-bit pair sweep: " + o[:300], {"case": "sweep16 %d %d" % (q * 16384, q * 16384 + 16383), "impl": o[:500]})

if model_issue is not None and not found:
    ck.violation("model / implementation / reference disagree where the property fixes no value or the model is not faithful: " + model_issue[1][:300],
                 {"theorem_or_correspondence": "coq/C20 model vs harness", "case": model_issue[0][:500], "detail": model_issue[1]}, no_input=True)

if pr is not None and not pr["ok"]:
    ck.proof_broken(found)

ck.finish({
    "evaluations": evaluations,
    "distinct_nontrivial": nontriv,
    "rule": "cases = corpus of defect witnesses, then every value of the 8/16-bit template instantiations and every pair of 8-bit values (enumerated inside harness and driver), structured (all one-/two-bit patterns, 2^i +-2, complements, masks) and random 32/64-bit values, pairs aimed at the top of the range, rotation counts -70..70 and int extremes, Aggregate histories over 3 variables (add, +, +=, reset; empty operands included; value families: small integers, eighths, constants, clusters with a large common offset 1e6/1e8/1e9/1e12/-1e8 and spread 1e-3..10 as integers or multiples of 1/1024, mixed magnitudes; dedicated operand sizes 1..50 combined by +, += and chains of three), a strided 32-bit sweep against bit-loop references (thorough: all 2^32). Inputs per (function,type) are duplicate-free. non-trivial = input neither 0, -1 nor a power of two (one-argument), k does not divide n / rotation count not a multiple of w / a != b (two-argument), a history in which some + or += has two non-empty operands (Aggregate).",
    "exhaustive": False,
    "samples": samples[:8],
    "input_distribution": stats,
    "aggregate_max_error_over_tolerance": float(agg_margin[0]),
    "api_surface": API_SURFACE,
}, assumptions=[
    "C++ integer semantics as modelled in coq/C20/Math.v: two's complement wrap on narrowing/unsigned arithmetic, integer promotion to int, arithmetic >> on signed values (g++/clang behaviour)",
    "compiler intrinsics (__builtin_clz/ctz/ffs/popcount/bswap, x86 rol/ror) are modelled by their specification; their agreement with the templates on the real code is checked by the correspondence run only",
    "inputs on which the C++ code has undefined behaviour (signed overflow) or loops forever are not executed; the property makes no claim there (value not representable / outside the documented domain)",
    "Aggregate: exact rational model; floating-point rounding is outside the model: doubles are compared with the exact value within the forward error bound of the stable formulas, 16 n u M for the mean and 16 (n^2 u M R + n^3 u^2 M^2 + n u R^2) for nvar (u = 2^-53, n values, magnitude M, range R), which a formula cancelling sums of squares (error ~ n u M^2) cannot meet for ill-conditioned data; all fed values are exactly representable doubles; size_t overflow of counts outside the model",
    "extraction: ExtrOcamlBasic only; Z/N/positive/Q stay Coq inductives",
])
