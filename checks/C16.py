#!/usr/bin/env python3
"""C16 — RingBuffer / SimpleVector: Coq refinement theorem + op-sequence correspondence
(extracted model vs. real classes over a lifetime-ledger element type, ASan/UBSan)."""
import os, sys
HERE = os.path.dirname(os.path.abspath(__file__))
sys.path.insert(0, os.path.join(HERE, "..", "lib"))
import verif

ck = verif.Check("C16")
rng = ck.rng
pr = ck.prove()

# ---------------------------------------------------------------- generators
def gen_ring(rng, nops):
    st = [None, None, None]            # None = unallocated, else [m, list]
    ops = []
    mode = rng.below(4)                # 0 mixed, 1 back->front stream (wrap end), 2 front->back stream, 3 fill/drain
    while len(ops) < nops:
        i = rng.below(3)
        v = st[i]
        r = rng.below(100)
        if v is None:
            if r < 70:
                m = rng.below(10); ops.append("A,%d,%d" % (i, m)); st[i] = [m, []]
            elif r < 80: ops.append("D,%d" % i)
            elif r < 85: ops.append("CL,%d" % i)
            elif r < 90: ops.append("Q,%d" % i)
            else:
                j = rng.below(3)
                if j != i:                          # the source may be unallocated as well
                    k = rng.below(5)
                    cp = None if st[j] is None else [st[j][0], list(st[j][1])]
                    if k == 4:
                        if st[j] is not None:
                            ops.append("SL,%d,%d,0,%d,%s" % (i, j, st[j][0], ".".join(str(x) for x in st[j][1]))); st[i] = cp
                        continue
                    if k == 3: ops.append("CA,%d,%d" % (i, j)); st[i] = cp   # copy-assign onto an unallocated buffer
                    elif k == 0: ops.append("MA,%d,%d" % (i, j)); st[i] = st[j]; st[j] = None
                    elif k == 1: ops.append("CC,%d,%d" % (i, j)); st[i] = cp
                    else: ops.append("MC,%d,%d" % (i, j)); st[i] = st[j]; st[j] = None
            continue
        m, l = v
        val = 1 + rng.below(97)
        can_push = len(l) + 1 <= m
        if mode == 1: w = [("PB", 40), ("PoF", 38), ("PF", 3), ("PoB", 3)]
        elif mode == 2: w = [("PF", 40), ("PoB", 38), ("PB", 3), ("PoF", 3)]
        elif mode == 3: w = [("PB", 30), ("PF", 30), ("PoF", 10), ("PoB", 10)] if can_push else [("PoF", 40), ("PoB", 40)]
        else: w = [("PB", 20), ("PF", 20), ("PoF", 18), ("PoB", 18)]
        w += [("Q", 8), ("MT", 2), ("CL", 2), ("D", 2), ("CA", 3), ("MA", 2), ("CC", 2), ("MC", 2), ("SL", 2)]
        tot = sum(x for _, x in w); pick = rng.below(tot); name = None
        for nme, x in w:
            if pick < x: name = nme; break
            pick -= x
        if name == "PB" and can_push: ops.append("PB,%d,%d" % (i, val)); l.append(val)
        elif name == "PF" and can_push: ops.append("PF,%d,%d" % (i, val)); l.insert(0, val)
        elif name == "PoF" and l: ops.append("PoF,%d" % i); l.pop(0)
        elif name == "PoB" and l: ops.append("PoB,%d" % i); l.pop()
        elif name == "Q": ops.append("Q,%d" % i)
        elif name == "CL": ops.append("CL,%d" % i); v[1] = []
        elif name == "MT": ops.append("MT,%d" % i); v[1] = []
        elif name == "D": ops.append("D,%d" % i); st[i] = None
        elif name == "SL":
            # save buffer j, load it into buffer i (which has storage here): "SL,i,j,a,m,v1.v2..."
            j = rng.below(3)
            if j == i or st[j] is None: continue
            ops.append("SL,%d,%d,1,%d,%s" % (i, j, st[j][0], ".".join(str(x) for x in st[j][1])))
            st[i] = [st[j][0], list(st[j][1])]
        elif name in ("CA", "MA", "CC", "MC"):
            j = rng.below(3)
            if j == i: continue
            ops.append("%s,%d,%d" % (name, i, j))
            if name in ("CA", "CC"): st[i] = None if st[j] is None else [st[j][0], list(st[j][1])]
            else: st[i] = st[j]; st[j] = None
    for i in range(3): ops.append("Q,%d" % i)
    return "ring " + " ".join(ops)

def gen_svec(rng, nops):
    st = [[], [], []]; ops = []
    alloc = [False, False, False]      # array_ != nullptr
    while len(ops) < nops:
        i = rng.below(3); r = rng.below(100); l = st[i]
        if r < 15: n = rng.below(7); ops.append("M,%d,%d" % (i, n)); st[i] = [0] * n; alloc[i] = n > 0
        elif r < 35:
            n = rng.below(8); ops.append("R,%d,%d" % (i, n)); st[i] = (l + [0] * n)[:n] if n > len(l) else l[:n]; alloc[i] = True
        elif r < 60:
            if l: k = rng.below(len(l)); x = 1 + rng.below(90); ops.append("S,%d,%d,%d" % (i, k, x)); l[k] = x
        elif r < 62: ops.append("X,%d" % i); st[i] = []; alloc[i] = False
        elif r < 65:
            # fill(x) / fill(): every element assigned; "F,i,x,n" carries the current size for the model side
            if rng.chance(1, 3): ops.append("F0,%d,%d" % (i, len(l))); st[i] = [0] * len(l)
            else: x = 1 + rng.below(90); ops.append("F,%d,%d,%d" % (i, x, len(l))); st[i] = [x] * len(l)
        elif r < 75:
            j = rng.below(3)
            if j != i: ops.append("MA,%d,%d" % (i, j)); st[i] = st[j]; st[j] = []; alloc[i] = alloc[j]; alloc[j] = False
        elif r < 80:
            j = rng.below(3)
            if j != i: ops.append("MC,%d,%d" % (i, j)); st[i] = st[j]; st[j] = []; alloc[i] = alloc[j]; alloc[j] = False
        elif r < 88:
            j = rng.below(3); ops.append("SW,%d,%d" % (i, j)); st[i], st[j] = st[j], st[i]; alloc[i], alloc[j] = alloc[j], alloc[i]
        else: ops.append("Q,%d" % i)
    for i in range(3): ops.append("Q,%d" % i)
    return "svec " + " ".join(ops)

cases = [l.strip() for l in open(os.path.join(verif.VERIF, "corpus", "C16", "cases.txt")) if l.strip()]
ncorpus = len(cases)
if ck.replay:
    import json
    cases = [json.load(open(ck.replay))["case"]]
else:
    N = 60000 if ck.thorough() else 4000
    for k in range(N):
        if k % 5 == 4: cases.append(gen_svec(rng, 10 + rng.below(40)))
        else: cases.append(gen_ring(rng, 10 + rng.below(70)))
casefile = os.path.join(ck.scratch, "cases.txt")
open(casefile, "w").write("\n".join(cases) + "\n")

# ---------------------------------------------------------------- run both sides
found = False
exe, log = ck.build_cpp("c16_harness", ["harness/C16/ring_harness.cpp"])
drv, dlog = ck.ocaml_driver("C16")
stats = {"ring": 0, "svec": 0, "wrap": 0}
distinct = set()
samples = []
if exe is None:
    ck.violation("correspondence harness does not compile against /repo", {"correspondence": "harness/C16/ring_harness.cpp", "log": log[-2000:]}, no_input=True)
elif drv is None:
    ck.violation("extracted model/driver does not build", {"correspondence": "ocaml/C16_driver.ml", "log": dlog[-2000:]}, no_input=True)
else:
    rc1, out1 = verif.sh([exe, casefile], timeout=3000, env=dict(os.environ, ASAN_OPTIONS="detect_leaks=1"))
    rc2, out2 = verif.sh([drv, casefile], timeout=3000)
    impl = out1.splitlines(); model = out2.splitlines()
    if rc1 != 0:
        # crash (sanitizer): find the case by bisection on single cases
        found = True
        bad_case = None
        for idx, c in enumerate(cases):
            if idx < len(impl) - 1: continue
            one = os.path.join(ck.scratch, "one.txt"); open(one, "w").write(c + "\n")
            r, o = verif.sh([exe, one], timeout=60)
            if r != 0: bad_case = (c, o); break
        ck.violation("real RingBuffer/SimpleVector crashes under ASan/UBSan on a capacity-respecting history",
                     {"case": bad_case[0] if bad_case else None, "log_tail": (bad_case[1] if bad_case else out1)[-2500:]})
    else:
        # emplace forms (harness only; the expected line is computed here): (count, value) packs must reach the (count, value) constructors
        ecases = [(n, v) for n in (0, 1, 2, 3, 5) for v in (0, 1, 9)]
        efile = os.path.join(ck.scratch, "emplace.txt"); open(efile, "w").write("".join("emplace %d %d\n" % e for e in ecases))
        rce, oute = verif.sh([exe, efile], timeout=120, env=dict(os.environ, ASAN_OPTIONS="detect_leaks=1"))
        elines = [l for l in oute.splitlines() if l.startswith("E ")]
        for k, (n, v) in enumerate(ecases):
            exp = "E %d:%d %d:%d 0 %s %s" % (n, v if n else -1, n, 0 if n else -1, chr(ord("a") + v % 26) * n, "xy")
            got = elines[k] if k < len(elines) else "<missing> rc=%d %s" % (rce, oute[-300:])
            stats["emplace"] = stats.get("emplace", 0) + 1
            if got != exp:
                found = True
                ck.violation("RingBuffer emplace_back/emplace_front does not construct the element from its argument pack as T(args...): got '%s' expected '%s'" % (got, exp),
                             {"case": "emplace %d %d" % (n, v), "expected": exp, "got": got, "format": "emplace <n> <v>: RingBuffer<std::vector<int>>::emplace_back(n, v), emplace_front(n), emplace_back(); RingBuffer<std::string>::emplace_back(n, char), emplace_front(\"xyz\", 2)"})
                break
        for idx, c in enumerate(cases):
            a = impl[idx].strip() if idx < len(impl) else "<missing>"
            b = model[idx].strip() if idx < len(model) else "<missing>"
            kind = c.split()[0]; stats[kind] += 1
            if "INVALID-HISTORY" in b or "MODEL-DIFFERS-FROM-SPEC" in b:
                ck.violation("generator/model self-check failed: " + b[-60:], {"case": c, "model": b}, no_input=True); break
            toks = c.split()
            npush = sum(1 for t in toks if t.startswith(("PB,", "PF,")))
            if (npush > 10 or any(t.startswith(("CA,", "MA,", "CC,", "MC,", "MT,", "R,", "SW,")) for t in toks)) and len(toks) > 6:
                distinct.add(c)
            if a != b:
                found = True
                # property verdict on the implementation alone: ledger must be ok and answers must match the deque spec (= model, proven)
                ck.violation("implementation differs from the proven bounded-deque model: impl=%s model=%s" % (a[-120:], b[-120:]),
                             {"case": c, "impl": a, "model": b, "replay_cmd": "bin/check C16 --replay <this file>"})
                if ck.violations >= 3: break
        samples = [{"case": cases[i], "result": impl[i]} for i in (0, ncorpus, ncorpus + 4) if i < len(impl)]

if pr is not None and not pr["ok"]:
    ck.proof_broken(found)

ck.finish({
    "evaluations": len(cases),
    "distinct_nontrivial": len(distinct),
    "rule": "operation histories over 3 buffer variables generated from a spec-tracking generator (capacities 0..9, four bias modes that wrap either cursor, copies/moves/(de)allocation); non-trivial = more than 5 operations and either more than 10 pushes (forces a cursor to wrap for capacities <= 9) or a copy/move/assign/move_to (ring) resp. resize/swap/move (vector) operation; distinct = distinct case text. Each case is run on the real classes (Tracked ledger elements, counting allocator, ASan+UBSan) and on the extracted Coq model; every query answer and the final ledger verdict are compared.",
    "samples": samples,
    "input_distribution": stats,
}, assumptions=[
    "x & mask_ (mask_ = capacity_-1, capacity_ a power of two) is written as x mod capacity_ in the model; C16/Mask.v proves the two equal under 64-bit wrap-around",
    "moved-from buffers are only re-allocated, destroyed or assigned to (not read) by the generated histories",
    "SimpleVector: Normal mode only (new T[n] / delete[] construct and destroy whole blocks); NoInit modes not modelled",
    "extraction: ExtrOcamlBasic only; nat/list stay Coq inductives",
])
