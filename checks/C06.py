#!/usr/bin/env python3
"""C06 — parallel_mergesort / stable_parallel_mergesort: Coq theorems about the model of
tlx/sort/parallel_mergesort.hpp + correspondence run (extracted model vs. the real sort with real threads,
three element types, ASan/UBSan/LSan; thorough tier: additionally a ThreadSanitizer build)."""
import json, os, sys
HERE = os.path.dirname(os.path.abspath(__file__))
sys.path.insert(0, os.path.join(HERE, "..", "lib"))
import verif

sys.path.insert(0, os.path.join(HERE, "..", "translate"))
import merge34                      # C05's translator: the closed theorems (C06/Instances.v) run over the C05 merge model,
                                    # whose 3/4-way automata are regenerated from multiway_merge.hpp
ck = verif.Check("C06")
rng = ck.rng
translator_error = None
try:
    ck.regen(merge34.GENERATE)
except RuntimeError as e:
    translator_error = str(e)
pr = ck.prove() if translator_error is None else None
if translator_error is not None:
    ck.violation("translator of the C05 merge automata failed on multiway_merge.hpp: " + translator_error[:200],
                 {"correspondence": "translate/merge34.py (needed by coq/C06/Instances.v)"}, no_input=True)

ELEMS = ["pair", "pair", "trk", "int"]
OSS = [1, 2, 3, 10, 10]


def gen_keys(rng, n, K):
    """n keys over the universe 0..K-1; patterns aimed at ties across run / window boundaries."""
    pat = rng.below(7)
    if pat == 0:
        ks = [rng.below(K) for _ in range(n)]
    elif pat == 1:                                   # sorted
        ks = sorted(rng.below(K) for _ in range(n))
    elif pat == 2:                                   # reversed
        ks = sorted((rng.below(K) for _ in range(n)), reverse=True)
    elif pat == 3:                                   # all equal
        k = rng.below(K); ks = [k] * n
    elif pat == 4:                                   # few long blocks
        ks = []
        while len(ks) < n:
            ks += [rng.below(K)] * (1 + rng.below(max(1, n // 2)))
        ks = ks[:n]
    elif pat == 5:                                   # periodic
        off = rng.below(K); ks = [(i + off) % K for i in range(n)]
    else:                                            # one outlier among equal keys
        k = rng.below(K); ks = [k] * n
        if n: ks[rng.below(n)] = rng.below(K)
    return ks, pat


def mk_case(elem, stable, split, cmp_, p, os_, keys):
    return "%s %s %s %s %d %d %s" % (elem, "S" if stable else "U", split, cmp_, p, os_,
                                      ",".join(map(str, keys)) if keys else "-")


def parse_case(c):
    elem, stab, split, cmp_, p, os_, keys = c.split()
    return {"elem": elem, "stable": stab == "S", "split": split, "greater": cmp_ == "G", "p": int(p), "os": int(os_),
            "keys": [] if keys == "-" else [int(x) for x in keys.split(",")]}


def fields(line):
    d = {}
    for tok in line.split():
        if "=" in tok:
            k, v = tok.split("=", 1); d[k] = v
    return d


def ints(s):
    return [] if s in ("", None) else [int(x) for x in s.split(",")]


def property_verdict(case, line):
    """Judge the implementation's line against the property text alone (no model involved).
    Returns None if fine, else a description."""
    c = parse_case(case)
    f = fields(line)
    if "keys" not in f or "ord" not in f:
        return "no result line (%s)" % line[:80]
    keys = c["keys"]; n = len(keys)
    try:
        rk = ints(f["keys"])
        ro = None if f["ord"] == "-" else ints(f["ord"])
    except ValueError:
        return "unparsable result line"
    want = sorted(keys, reverse=c["greater"])
    if rk != want:
        if sorted(rk) != sorted(keys):
            return "result is not a permutation of the input keys"
        return "result is not in comparator order"
    if ro is not None:
        if sorted(ro) != list(range(n)) or any(keys[i] != k for k, i in zip(rk, ro)):
            return "result elements are not a permutation of the input elements"
        exp = sorted(range(n), key=(lambda i: -keys[i]) if c["greater"] else (lambda i: keys[i]))
        if ro != exp:
            return "stable sort: arrangement differs from std::stable_sort" if c["stable"] else \
                "canonicalised arrangement is not the input multiset"
    if f.get("leak", "0") != "0":
        return "temporary copies still alive after the sort returned (live-instance counter +%s)" % f.get("leak")
    if f.get("err", "0") != "0":
        return "element lifetime error during the sort: %s" % line[line.find("first_error"):][:80]
    return None


# ---------------------------------------------------------------- cases
corpus_file = os.path.join(verif.VERIF, "corpus", "C06", "cases.txt")
cases = [l.strip() for l in open(corpus_file) if l.strip() and not l.startswith("#")]
ncorpus = len(cases)
hist = {"corpus": ncorpus, "grid": 0, "few_per_thread": 0, "large": 0}
pat_hist = {}
if ck.replay:
    cases = [json.load(open(ck.replay))["case"]]
    ncorpus = 0
else:
    reps = 5 if ck.thorough() else 1
    # bounded-exhaustive grid over (n, p, splitting, key universe); pattern / element type / stability / comparator /
    # oversampling drawn per grid point
    for rep in range(reps):
        for n in range(0, 71):
            for p in range(1, 21):
                for split in ("E", "X"):
                    for K in (1, 2, 3, 4):
                        keys, pat = gen_keys(rng, n, K)
                        pat_hist[pat] = pat_hist.get(pat, 0) + 1
                        cases.append(mk_case(rng.choice(ELEMS), rng.chance(2, 3), split, "G" if rng.chance(1, 4) else "L",
                                             p, rng.choice(OSS), keys))
                        hist["grid"] += 1
    # many threads, few elements per thread (17 <= n < 2p, p = 9..24), 2-3 distinct keys, stable and unstable, both
    # splittings, half of them with a comparator that disagrees with the elements' natural operator<
    for rep in range(reps):
        for p in range(9, 25):
            for n in range(17, 2 * p):
                for split in ("E", "X"):
                    for K in (2, 3):
                        keys, pat = gen_keys(rng, n, K)
                        pat_hist[pat] = pat_hist.get(pat, 0) + 1
                        cases.append(mk_case(rng.choice(["pair", "pair", "trk"]), rng.chance(3, 4), split,
                                             "G" if rng.chance(1, 2) else "L", p, rng.choice(OSS), keys))
                        hist["few_per_thread"] = hist.get("few_per_thread", 0) + 1
    # larger random inputs: sizes around multiples of the thread count, duplicate-heavy and near-unique keys
    nlarge = 400 if ck.thorough() else 60
    for _ in range(nlarge):
        p = rng.choice([1, 2, 3, 4, 5, 7, 8, 13, 16, 17, 24, 32])
        base = rng.choice([p, 2 * p, 64, 100, 257, 500, 1000, 1500 if ck.thorough() else 700])
        n = max(0, base + rng.range(-2, 2))
        K = rng.choice([1, 2, 3, 4, 13, 100, 100000])
        keys, pat = gen_keys(rng, n, K)
        pat_hist[pat] = pat_hist.get(pat, 0) + 1
        cases.append(mk_case(rng.choice(ELEMS), rng.chance(2, 3), rng.choice(["E", "X"]), "G" if rng.chance(1, 4) else "L",
                             p, rng.choice(OSS), keys))
        hist["large"] += 1
casefile = os.path.join(ck.scratch, "cases.txt")
open(casefile, "w").write("\n".join(cases) + "\n")

# ---------------------------------------------------------------- run both sides
REPO_SRC = ["tlx/algorithm/parallel_multiway_merge.cpp"]
found = False
exe, log = ck.build_cpp("c06_harness", ["harness/C06/pms_harness.cpp"], repo_sources=REPO_SRC)
drv, dlog = ck.ocaml_driver("C06")
distinct = set()
samples = []
stats = {"stable": 0, "unstable": 0, "exact": 0, "sampling": 0, "int": 0, "pair": 0, "trk": 0,
         "n<=1": 0, "n<threads": 0, "n_not_multiple_of_threads": 0, "tie_across_window_boundary": 0,
         "sampling_comparator_not_natural_order": 0}
tsan = None


def san_head(text):
    """the first sanitizer report of a log: the ERROR line and the first stack"""
    i = text.find("ERROR: ")
    return text[max(0, i - 80):i + 3500] if i >= 0 else text[:1500]


def run_one(exe_, case, env):
    one = os.path.join(ck.scratch, "one.txt"); open(one, "w").write(case + "\n")
    return verif.sh([exe_, one], timeout=120, env=env)


if exe is None:
    ck.violation("correspondence harness does not compile against /repo", {"correspondence": "harness/C06/pms_harness.cpp", "log": log[-2000:]}, no_input=True)
elif drv is None:
    ck.violation("extracted model/driver does not build", {"correspondence": "ocaml/C06_driver.ml", "log": dlog[-2000:]}, no_input=True)
else:
    env = dict(os.environ, ASAN_OPTIONS="detect_leaks=1", UBSAN_OPTIONS="print_stacktrace=1")
    # the harness spends its time creating real threads under ASan: run 4 contiguous chunks of the case file in parallel
    from concurrent.futures import ThreadPoolExecutor
    NJOBS = 4
    bounds = [len(cases) * k // NJOBS for k in range(NJOBS + 1)]
    chunk_files = []
    for k in range(NJOBS):
        cf = os.path.join(ck.scratch, "cases_%d.txt" % k)
        open(cf, "w").write("\n".join(cases[bounds[k]:bounds[k + 1]]) + "\n")
        chunk_files.append(cf)
    with ThreadPoolExecutor(NJOBS + 1) as ex:
        fm = ex.submit(verif.sh, [drv, casefile], 3000)
        fs = [ex.submit(verif.sh, [exe, cf], 3000, None, env) for cf in chunk_files]
        rc2, out2 = fm.result()
        chunk_res = [f.result() for f in fs]
    # stitch the chunks together; a chunk that died early truncates the implementation's line list at that point
    impl = []; rc1 = 0; out1 = ""
    for k, (r, o) in enumerate(chunk_res):
        ls = [l for l in o.splitlines() if l.startswith("keys=") or l == "?"]
        impl += ls
        if len(ls) != bounds[k + 1] - bounds[k]:
            rc1 = r if r != 0 else 1; out1 = o
            break
        if r != 0 and rc1 == 0:
            rc1 = r; out1 = o                        # e.g. LeakSanitizer report at exit; all lines present
    model = out2.splitlines()
    if rc2 != 0 or len(model) != len(cases):
        ck.violation("extracted model failed on the case file", {"correspondence": "ocaml/C06_driver.ml", "log": out2[-1500:]}, no_input=True)
    # pass 1: statistics, model self-check, and the property verdict on the implementation's output alone; property
    # violations (wrong / unstable / unsorted result, leak, lifetime error) are reported first, each with its input
    footprint_diffs = []
    prop_reports = 0
    for idx, c in enumerate(cases):
        if idx >= len(impl) or idx >= len(model):
            break
        a = impl[idx].strip(); b = model[idx].strip()
        pc = parse_case(c); n = len(pc["keys"]); p = pc["p"]
        stats["stable" if pc["stable"] else "unstable"] += 1
        stats["exact" if pc["split"] == "E" else "sampling"] += 1
        stats[pc["elem"]] += 1
        if n <= 1: stats["n<=1"] += 1
        elif n < p: stats["n<threads"] += 1
        elif n % p: stats["n_not_multiple_of_threads"] += 1
        if pc["greater"] and pc["split"] == "X" and min(n, p) >= 2: stats["sampling_comparator_not_natural_order"] += 1
        if n >= 2 and min(n, p) >= 2: distinct.add(c)
        fb = fields(b)
        if fb.get("win") not in (None, "-", ""):
            ks = ints(fb["keys"]); pos = 0
            for w in ints(fb["win"])[:-1]:
                pos += w
                if ks[pos - 1] == ks[pos]:
                    stats["tie_across_window_boundary"] += 1; break
        if "MODEL-" in b:
            ck.violation("model self-check failed: " + b[-40:], {"case": c, "model": b, "theorem_or_correspondence": "C06_extracted_model_correct vs extracted model"}, no_input=True)
            break
        verdict = property_verdict(c, a)
        if verdict is not None:
            found = True
            if prop_reports < 3:
                prop_reports += 1
                ck.violation("%s: %s" % ("stable_parallel_mergesort" if pc["stable"] else "parallel_mergesort", verdict),
                             {"case": c, "impl": a[:600], "model": b[:600], "replay_cmd": "bin/check C06 --replay <this file>"})
        elif a != b:
            footprint_diffs.append((c, a, b))
    # pass 2: differences the property leaves open (merge windows / write footprint) - correspondence only
    for c, a, b in footprint_diffs[:2]:
        ck.violation("implementation differs from the model (merge windows / footprint): impl=%s model=%s" % (a[-100:], b[-100:]),
                     {"case": c, "impl": a[:600], "model": b[:600], "correspondence": "harness/C06/pms_harness.cpp vs coq/C06/PMS.v",
                      "footprint_differences_total": len(footprint_diffs)},
                     no_input=True)
    if rc1 != 0 and (ck.violations == 0 or len(impl) < len(cases)):
        if len(impl) < len(cases):
            # crash (sanitizer / signal) in the middle: the first case without an output line
            c = cases[len(impl)]
            r, o = run_one(exe, c, env)
            found = True
            ck.violation("real (stable_)parallel_mergesort crashes under ASan/UBSan on a valid input" if r != 0 else
                         "real (stable_)parallel_mergesort crashed under ASan/UBSan in a batch run (not reproduced alone)",
                         {"case": c, "sanitizer_report_head": san_head(o if r != 0 else out1),
                          "log_tail": (o if r != 0 else out1)[-1500:]})
        else:
            ck.violation("sanitizer report at exit of the harness (rc=%d) although every case printed a clean line" % rc1,
                         {"correspondence": "harness/C06/pms_harness.cpp", "log_tail": out1[-2500:]}, no_input=True)
    pick = [0, ncorpus, ncorpus + 4321, len(cases) - 1]
    samples = [{"case": cases[i][:300], "result": impl[i][:300]} for i in pick if 0 <= i < len(impl)]

    # ------------------------------------------------------------ thorough: ThreadSanitizer build on a subset
    if ck.thorough() and ck.violations == 0 and not ck.replay:
        texe, tlog = ck.build_cpp("c06_harness_tsan", ["harness/C06/pms_harness.cpp"], repo_sources=REPO_SRC,
                                  flags=["-std=c++17", "-O1", "-g", "-fsanitize=thread"])
        if texe is None:
            tsan = {"built": False}
        else:
            sub = cases[:ncorpus] + [c for i, c in enumerate(cases[ncorpus:]) if i % 9 == 0 and len(c) < 2500][:4000]
            tf = os.path.join(ck.scratch, "tsan_cases.txt"); open(tf, "w").write("\n".join(sub) + "\n")
            rc3, out3 = verif.sh([texe, tf], timeout=3000, env=dict(os.environ, TSAN_OPTIONS="halt_on_error=1 second_deadlock_stack=1"))
            lines3 = [l for l in out3.splitlines() if l.startswith("keys=")]
            tsan = {"built": True, "cases": len(sub), "completed": len(lines3), "rc": rc3}
            if "ThreadSanitizer: data race" in out3 or (rc3 != 0 and "ThreadSanitizer" in out3 and "unsupported" not in out3 and "FATAL" not in out3):
                found = True
                c = sub[len(lines3)] if len(lines3) < len(sub) else None
                ck.violation("ThreadSanitizer reports a data race inside (stable_)parallel_mergesort",
                             {"case": c, "log_tail": out3[-3000:]})
            elif rc3 != 0:
                tsan["note"] = "ThreadSanitizer runtime unavailable in this environment: " + out3[-200:]

if pr is not None and not pr["ok"]:
    ck.proof_broken(found)

ck.finish({
    "evaluations": len(cases),
    "distinct_nontrivial": len(distinct),
    "rule": "one case per grid point (n 0..70) x (threads 1..20) x (exact, sampling) x (key universe 1..4) [x5 in the thorough tier], one per "
            "(threads 9..24) x (17 <= n < 2*threads) x (exact, sampling) x (2, 3 keys), plus "
            "larger random inputs; pattern, element type (int / (key,index) with writer tags / heap-owning ledger type), stable or not, "
            "less or greater, oversampling 1/2/3/10 drawn per case. Non-trivial = n >= 2 and at least two threads after clamping "
            "(runs are split, partitioned and merged); distinct = distinct case text. Each case runs on the real sort with real "
            "threads (ASan+UBSan+LSan) and on the extracted Coq model; result arrangement, merge windows (writer thread of every "
            "position), live-instance delta and ledger errors are compared; the implementation's line is first judged against the "
            "property alone (sorted, permutation, equal to stable order, no leak).",
    "exhaustive": False,
    "samples": samples,
    "input_distribution": dict(stats, **{"source_" + k: v for k, v in hist.items()},
                               **{"pattern_%d" % k: v for k, v in sorted(pat_hist.items())}),
    "tsan": tsan,
}, assumptions=[
    "std::sort / std::stable_sort / std::lower_bound / uninitialized_copy are modelled by their specifications",
    "multisequence_partition (C08) and multiway_merge_base (C05) enter the theorems through their specifications "
    "(is_split / stable merge); the correspondence runs the real ones",
    "the partition tie-rule repair of C08 (fixes/C08) is applied to the tree (exact splitting depends on it)",
    "data-race freedom at the C++ memory-model level is supported by the footprint theorem + real-thread runs (TSan in the thorough tier), not proved",
    "extraction: ExtrOcamlBasic only; nat/list stay Coq inductives",
])
