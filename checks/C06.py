#!/usr/bin/env python3
"""C06 — parallel_mergesort / stable_parallel_mergesort: Coq theorems about the model of
tlx/sort/parallel_mergesort.hpp + correspondence run (extracted model vs. the real sort with real threads,
three element types, ASan/UBSan/LSan; thorough tier: additionally a ThreadSanitizer build)."""
import json, os, sys
HERE = os.path.dirname(os.path.abspath(__file__))
sys.path.insert(0, os.path.join(HERE, "..", "lib"))
import verif

sys.path.insert(0, os.path.join(HERE, "..", "translate"))
import merge34                      # C05's translator: the closed theorems (C06/Instances.v) run over the C05 merge model,
                                    # whose 3/4-way automata are regenerated from multiway_merge.hpp
ck = verif.Check("C06")
rng = ck.rng
translator_error = None
try:
    ck.regen(merge34.GENERATE)
except RuntimeError as e:
    translator_error = str(e)
import time as _time
_t0 = _time.time(); phase_s = {}
pr = ck.prove() if translator_error is None else None
phase_s["prove"] = round(_time.time() - _t0, 1)
if translator_error is not None:
    ck.violation("translator of the C05 merge automata failed on multiway_merge.hpp: " + translator_error[:200],
                 {"correspondence": "translate/merge34.py (needed by coq/C06/Instances.v)"}, no_input=True)

ELEMS = ["pair", "pair", "trk", "int"]
OSS = [1, 2, 3, 10, 10]


def gen_keys(rng, n, K):
    """n keys over the universe 0..K-1; patterns aimed at ties across run / window boundaries."""
    pat = rng.below(8)
    if pat == 0:
        ks = [rng.below(K) for _ in range(n)]
    elif pat == 1:                                   # sorted
        ks = sorted(rng.below(K) for _ in range(n))
    elif pat == 2:                                   # reversed
        ks = sorted((rng.below(K) for _ in range(n)), reverse=True)
    elif pat == 3:                                   # all equal
        k = rng.below(K); ks = [k] * n
    elif pat == 4:                                   # few long blocks
        ks = []
        while len(ks) < n:
            ks += [rng.below(K)] * (1 + rng.below(max(1, n // 2)))
        ks = ks[:n]
    elif pat == 5:                                   # periodic
        off = rng.below(K); ks = [(i + off) % K for i in range(n)]
    elif pat == 7:                                   # organ pipe: up then down
        up = sorted(rng.below(K) for _ in range((n + 1) // 2)); down = sorted((rng.below(K) for _ in range(n // 2)), reverse=True)
        ks = up + down
    else:                                            # one outlier among equal keys
        k = rng.below(K); ks = [k] * n
        if n: ks[rng.below(n)] = rng.below(K)
    return ks, pat


def mk_case(elem, stable, split, cmp_, p, os_, keys, variant=None):
    return "%s %s %s %s %d %d %s" % (elem, "S" if stable else "U", split, cmp_, p, os_,
                                      ",".join(map(str, keys)) if keys else "-") + (" " + variant if variant else "")


def parse_case(c):
    toks = c.split()
    elem, stab, split, cmp_, p, os_, keys = toks[:7]
    return {"variant": toks[7] if len(toks) > 7 else "avk5", "elem": elem, "stable": stab == "S", "split": split, "greater": cmp_ == "G", "p": int(p), "os": int(os_),
            "keys": [] if keys == "-" else [int(x) for x in keys.split(",")]}


def fields(line):
    d = {}
    for tok in line.split():
        if "=" in tok:
            k, v = tok.split("=", 1); d[k] = v
    return d


def ints(s):
    return [] if s in ("", None) else [int(x) for x in s.split(",")]


def property_verdict(case, line):
    """Judge the implementation's line against the property text alone (no model involved).
    Returns None if fine, else a description."""
    c = parse_case(case)
    f = fields(line)
    if "keys" not in f or "ord" not in f:
        return "no result line (%s)" % line[:80]
    if "moved-from-element" in line:
        return "the sort looked at the key of a moved-from element (comparator called on it, or a sample / result copied from it)"
    keys = c["keys"]; n = len(keys)
    try:
        rk = ints(f["keys"])
        ro = None if f["ord"] == "-" else ints(f["ord"])
    except ValueError:
        return "unparsable result line"
    want = sorted(keys, reverse=c["greater"])
    if rk != want:
        if sorted(rk) != sorted(keys):
            return "result is not a permutation of the input keys"
        return "result is not in comparator order"
    if ro is not None:
        if sorted(ro) != list(range(n)) or any(keys[i] != k for k, i in zip(rk, ro)):
            return "result elements are not a permutation of the input elements"
        exp = sorted(range(n), key=(lambda i: -keys[i]) if c["greater"] else (lambda i: keys[i]))
        if ro != exp:
            return "stable sort: arrangement differs from std::stable_sort" if c["stable"] else \
                "canonicalised arrangement is not the input multiset"
    if "GUARD-OVERWRITTEN" in line:
        return "the sort wrote outside the range it was given (%s)" % line[line.find("GUARD-OVERWRITTEN"):][:40]
    if f.get("leak", "0") != "0":
        return "temporary copies still alive after the sort returned (live-instance counter +%s)" % f.get("leak")
    if "moved-from-element" in line:
        return "the sort looked at the key of a moved-from element (comparator called on it, or a sample / result copied from it)"
    if f.get("err", "0") != "0":
        return "element lifetime error during the sort: %s" % line[line.find("first_error"):][:80]
    return None



# ---------------------------------------------------------------- API surface of tlx/sort/parallel_mergesort.hpp
# variant token: entry (a = parallel_mergesort / stable_parallel_mergesort, b = parallel_mergesort_base<Stable>), iterator
# (v = std::vector iterator, p = raw pointer, d = std::deque iterator), comparator (k = aggregate functor with state,
# n = stateful functor without default constructor, l = lambda closure, - = none passed: Comparator() = std::less<T>),
# number of arguments passed (2 = begin,end; 3 = +comp; 4 = +num_threads; 5 = +mwmsa; the rest take their defaults).
# (variant, element type, stable, harness set)
VARIANTS = [("apk5", "pair", True, 1), ("adk5", "pair", False, 1), ("avn5", "pair", True, 1), ("avl5", "pair", False, 1),
            ("adn5", "trk", True, 1), ("av-2", "int", False, 1),
            ("avk4", "pair", True, 2), ("avk3", "pair", False, 2), ("av-2", "pair", True, 2), ("bvk5", "pair", False, 2),
            ("bdl4", "pair", True, 2), ("bpn3", "trk", False, 2),
            # iterator kinds that do not address contiguous ascending memory (r = std::vector<T>::reverse_iterator,
            # q = std::reverse_iterator<T*>, d = std::deque across block boundaries), with a trivially copyable
            # (key, index) type "pod", int, and the two non-trivial element types; guard cells around the range
            ("ark5", "pod", True, 3), ("aqk5", "pod", False, 3), ("adk5", "pod", True, 3), ("avk5", "pod", False, 3),
            ("adk5", "int", False, 3), ("ark5", "int", True, 3), ("ark5", "pair", False, 3), ("aqk5", "trk", True, 3)]
NONCONTIG = [v for v in VARIANTS if v[3] == 3]
VARIANT_SET = {(v, e): k for v, e, _, k in VARIANTS}
API_SURFACE = [
    {"entry": "tlx::parallel_mergesort(begin, end, comp, num_threads, mwmsa)", "called": True, "by": "every default case (variant avk5), all three element types"},
    {"entry": "tlx::stable_parallel_mergesort(begin, end, comp, num_threads, mwmsa)", "called": True, "by": "every default case (variant avk5)"},
    {"entry": "tlx::parallel_mergesort_base<false>(...)", "called": True, "by": "variants bvk5 (5 args), bpn3 (3 args)"},
    {"entry": "tlx::parallel_mergesort_base<true>(...)", "called": True, "by": "variant bdl4 (4 args)"},
    {"entry": "default comparator (Comparator() = std::less<value_type>), i.e. (begin, end) only", "called": True, "by": "variants av-2 on int (unstable) and on (key,index) elements (stable)"},
    {"entry": "explicit comparator, default num_threads = std::thread::hardware_concurrency() and default mwmsa", "called": True, "by": "variants avk3, bpn3 (thread count read from the harness with --hw; skipped if it reports 0)"},
    {"entry": "explicit num_threads, default mwmsa (MWMSA_DEFAULT = MWMSA_EXACT)", "called": True, "by": "variants avk4, bdl4"},
    {"entry": "mwmsa = MWMSA_EXACT / MWMSA_SAMPLING explicit", "called": True, "by": "all 5-argument variants, both values"},
    {"entry": "mwmsa = MWMSA_LAST", "called": False, "by": "not a splitting algorithm (enum end marker): neither branch runs and pieces stay uninitialised - outside the property"},
    {"entry": "num_threads = 0", "called": False, "by": "n / num_threads divides by zero; the property quantifies over thread counts >= 1 (hardware_concurrency() may legally return 0: the default-thread variants are skipped then)"},
    {"entry": "iterator kinds: std::vector<T>::iterator / T* / std::deque<T>::iterator", "called": True, "by": "v: default; p: apk5, bpn3; d: adk5, adn5, bdl4"},
    {"entry": "iterator kinds not addressing contiguous ascending memory: std::vector<T>::reverse_iterator (v.rbegin()), std::reverse_iterator<T*>, std::deque across block boundaries (n up to 300)", "called": True, "by": "variants ark5 / aqk5 / adk5 of harness set 3, with guard cells around the range, element types pod (trivially copyable (key,index)), int, (key,index)+tag, ledger type; both splittings, stable and unstable, 1..16 threads"},
    {"entry": "element type: trivially copyable aggregate (key, index)", "called": True, "by": "element kind pod (harness set 3), through vector, reverse and deque iterators"},
    {"entry": "element types: int (trivial), (key,index)+writer tag, heap-owning ledger type", "called": True, "by": "default cases; ledger type also through deque / pointer variants"},
    {"entry": "element type with real move operations that poison the moved-from source (ledger type: moved-from key = MOVED sentinel; any later comparator call / sample / result that sees it is an error token)", "called": True, "by": "every trk case: both splittings, stable and unstable, all thread counts and iterator kinds of the trk variants"},
    {"entry": "element type: move-only", "called": False, "by": "does not compile: the sort copies its input with std::uninitialized_copy and merges with copy assignment (CopyConstructible + CopyAssignable required)"},
    {"entry": "comparators: less / greater by key (aggregate functor with state)", "called": True, "by": "default cases (L / G)"},
    {"entry": "comparator: stateful, not default-constructible", "called": True, "by": "variants avn5, adn5, bpn3"},
    {"entry": "comparator: lambda closure", "called": True, "by": "variants avl5, bdl4"},
    {"entry": "comparator disagreeing with the element's operator<", "called": True, "by": "every G case; counted for sampling with >= 2 threads in input_distribution.sampling_comparator_not_natural_order"},
    {"entry": "global tlx::parallel_multiway_merge_oversampling (1, 2, 3, 10)", "called": True, "by": "every case"},
    {"entry": "#if defined(_OPENMP) thread creation", "called": "thorough tier", "by": "quick tier: built without OpenMP, as the library's own tests (the std::thread branch is the one modelled); thorough tier: a -fopenmp build runs the corpus and a sample of cases, results judged against the property. Finding reported in docs/audit/C06.md: the branch deadlocks when the OpenMP runtime delivers fewer threads than requested"},
    {"entry": "global tlx::parallel_multiway_merge_oversampling = 0", "called": "exact splitting only", "by": "unused by exact splitting (covered); with sampling the sort throws std::bad_array_new_length before touching the input (outside the property, docs/audit/C06.md)"},
]

# ---------------------------------------------------------------- build (three harness executables, in parallel)
from concurrent.futures import ThreadPoolExecutor
REPO_SRC = ["tlx/algorithm/parallel_multiway_merge.cpp"]
found = False
with ThreadPoolExecutor(4) as ex:
    builds = [ex.submit(ck.build_cpp, "c06_harness_%d" % k, ["harness/C06/pms_harness.cpp"], None, REPO_SRC, ["-DC06_SET=%d" % k])
              for k in (0, 1, 2, 3)]
    builds = [f.result() for f in builds]
exes = [b[0] for b in builds]
phase_s["build_harness"] = round(_time.time() - _t0 - phase_s["prove"], 1)
exe = exes[0]
log = "\n".join(b[1][-1500:] for b in builds if b[0] is None)
if None in exes:
    exe = None
hw = 0
if exe is not None:
    r_, o_ = verif.sh([exe, "--hw"], timeout=60)
    try:
        hw = int(o_.strip().splitlines()[-1])
    except (ValueError, IndexError):
        hw = 0
# ---------------------------------------------------------------- cases
corpus_file = os.path.join(verif.VERIF, "corpus", "C06", "cases.txt")
cases = [l.strip() for l in open(corpus_file) if l.strip() and not l.startswith("#")]
ncorpus = len(cases)
hist = {"corpus": ncorpus, "grid": 0, "few_per_thread": 0, "many_threads": 0, "oversampling_extremes": 0, "noncontiguous_ranges": 0, "api_variants": 0, "large": 0}
pat_hist = {}
if ck.replay:
    cases = [json.load(open(ck.replay))["case"]]
    ncorpus = 0
else:
    reps = 5 if ck.thorough() else 1
    # bounded-exhaustive grid over (n, p, splitting, key universe); pattern / element type / stability / comparator /
    # oversampling drawn per grid point
    for rep in range(reps):
        for n in range(0, 71):
            for p in range(1, 21):
                for split in ("E", "X"):
                    for K in (1, 2, 3, 4):
                        keys, pat = gen_keys(rng, n, K)
                        pat_hist[pat] = pat_hist.get(pat, 0) + 1
                        cases.append(mk_case(rng.choice(ELEMS), rng.chance(2, 3), split, "G" if rng.chance(1, 4) else "L",
                                             p, rng.choice(OSS), keys))
                        hist["grid"] += 1
    # many threads, few elements per thread (17 <= n < 2p, p = 9..24), 2-3 distinct keys, stable and unstable, both
    # splittings, half of them with a comparator that disagrees with the elements' natural operator<
    for rep in range(reps):
        for p in range(9, 25):
            for n in range(17, 2 * p):
                for split in ("E", "X"):
                    for K in (2, 3):
                        keys, pat = gen_keys(rng, n, K)
                        pat_hist[pat] = pat_hist.get(pat, 0) + 1
                        cases.append(mk_case(rng.choice(["pair", "pair", "trk"]), rng.chance(3, 4), split,
                                             "G" if rng.chance(1, 2) else "L", p, rng.choice(OSS), keys))
                        hist["few_per_thread"] = hist.get("few_per_thread", 0) + 1
    # more threads than cores: p = 25..33 around n = p (n < p, = p, p +- 1, 2p) and a few more elements
    for rep in range(reps):
        for p in range(25, 34):
            for n in (1, 2, p - 1, p, p + 1, 2 * p - 1, 2 * p, 40, 70):
                for split in ("E", "X"):
                    keys, pat = gen_keys(rng, n, rng.choice([1, 2, 3, 4]))
                    pat_hist[pat] = pat_hist.get(pat, 0) + 1
                    cases.append(mk_case(rng.choice(ELEMS), rng.chance(2, 3), split, "G" if rng.chance(1, 4) else "L",
                                         p, rng.choice(OSS), keys))
                    hist["many_threads"] = hist.get("many_threads", 0) + 1
    # oversampling extremes: large factors with sampling (few threads: the sample array has p*(os*p-1) elements), and 0
    # with exact splitting (the factor is unused there; with sampling 0 makes the sample count negative and the sort
    # throws std::bad_array_new_length before touching the input - outside the property, see docs/audit/C06.md)
    for _ in range(400 if ck.thorough() else 80):
        p = rng.choice([1, 2, 3, 4, 5, 6]); n = rng.choice([0, 1, 2, p, p + 1, rng.range(0, 60)])
        keys, pat = gen_keys(rng, n, rng.choice([1, 2, 3, 4, 30]))
        pat_hist[pat] = pat_hist.get(pat, 0) + 1
        if rng.chance(1, 4):
            cases.append(mk_case(rng.choice(ELEMS), rng.chance(2, 3), "E", "G" if rng.chance(1, 4) else "L", p, 0, keys))
        else:
            cases.append(mk_case(rng.choice(ELEMS), rng.chance(2, 3), "X", "G" if rng.chance(1, 3) else "L", p,
                                 rng.choice([25, 64, 100]), keys))
        hist["oversampling_extremes"] = hist.get("oversampling_extremes", 0) + 1
    # ranges that are not contiguous ascending memory (reverse iterators, deque blocks), trivially copyable and other elements
    for _ in range(3000 if ck.thorough() else 700):
        variant, elem, stable, _set = rng.choice(NONCONTIG)
        p = rng.choice([1, 2, 3, 4, 5, 7, 8, 12, 16])
        if variant[1] == "d":
            n = rng.choice([rng.range(60, 70), rng.range(120, 135), rng.range(0, 300), rng.range(0, 300)])   # deque blocks: 64 pods / 128 ints
        else:
            n = rng.choice([0, 1, 2, p - 1, p, p + 1, rng.range(0, 50), rng.range(0, 50)])
        keys, pat = gen_keys(rng, max(0, n), rng.choice([1, 2, 3, 4, 50]))
        pat_hist[pat] = pat_hist.get(pat, 0) + 1
        cases.append(mk_case(elem, stable, rng.choice(["E", "X"]), "G" if rng.chance(1, 3) else "L", p, rng.choice(OSS), keys, variant))
        hist["noncontiguous_ranges"] = hist.get("noncontiguous_ranges", 0) + 1
    # API variants (entry point / iterator kind / comparator kind / defaulted arguments), chosen per case from the seed
    nvar = 5000 if ck.thorough() else 900
    for _ in range(nvar):
        variant, elem, stable, _set = rng.choice([v for v in VARIANTS if v[3] in (1, 2)])
        nargs = int(variant[3])
        p = rng.choice([1, 2, 3, 4, 5, 7, 8, 12, 16])
        split = rng.choice(["E", "X"]); cmp_ = "G" if rng.chance(1, 3) else "L"
        if nargs <= 4: split = "E"                       # mwmsa defaulted
        if nargs <= 3:
            if hw < 1: continue                          # hardware_concurrency() unknown: thread count not determined
            p = hw
        if nargs == 2: cmp_ = "L"                        # std::less<T> = natural order
        n = rng.choice([0, 1, 2, p - 1, p, p + 1, 2 * p + 1, rng.range(0, 45), rng.range(0, 45)])
        keys, pat = gen_keys(rng, max(0, n), rng.choice([1, 2, 3, 4, 50]))
        pat_hist[pat] = pat_hist.get(pat, 0) + 1
        cases.append(mk_case(elem, stable, split, cmp_, p, rng.choice(OSS), keys, variant))
        hist["api_variants"] = hist.get("api_variants", 0) + 1
    # larger random inputs: sizes around multiples of the thread count, duplicate-heavy and near-unique keys
    nlarge = 400 if ck.thorough() else 60
    for _ in range(nlarge):
        p = rng.choice([1, 2, 3, 4, 5, 7, 8, 13, 16, 17, 24, 32, 33])
        base = rng.choice([p, 2 * p, 64, 100, 257, 500, 1000, 1500 if ck.thorough() else 700])
        n = max(0, base + rng.range(-2, 2))
        K = rng.choice([1, 2, 3, 4, 13, 100, 100000])
        keys, pat = gen_keys(rng, n, K)
        pat_hist[pat] = pat_hist.get(pat, 0) + 1
        cases.append(mk_case(rng.choice(ELEMS), rng.chance(2, 3), rng.choice(["E", "X"]), "G" if rng.chance(1, 4) else "L",
                             p, rng.choice(OSS), keys))
        hist["large"] += 1
casefile = os.path.join(ck.scratch, "cases.txt")
open(casefile, "w").write("\n".join(cases) + "\n")

# ---------------------------------------------------------------- run both sides
drv, dlog = ck.ocaml_driver("C06")
distinct = set()
samples = []
stats = {"stable": 0, "unstable": 0, "exact": 0, "sampling": 0, "int": 0, "pair": 0, "trk": 0, "pod": 0,
         "n<=1": 0, "n<threads": 0, "n_not_multiple_of_threads": 0, "tie_across_window_boundary": 0,
         "sampling_comparator_not_natural_order": 0, "some_thread_merges_nothing": 0}
tsan = None


def san_head(text):
    """the first sanitizer report of a log: the ERROR line and the first stack"""
    i = text.find("ERROR: ")
    return text[max(0, i - 80):i + 3500] if i >= 0 else text[:1500]


def run_one(exe_, case, env):
    one = os.path.join(ck.scratch, "one.txt"); open(one, "w").write(case + "\n")
    return verif.sh([exe_, one], timeout=120, env=env)


if exe is None:
    ck.violation("correspondence harness does not compile against /repo", {"correspondence": "harness/C06/pms_harness.cpp", "log": log[-2000:]}, no_input=True)
elif drv is None:
    ck.violation("extracted model/driver does not build", {"correspondence": "ocaml/C06_driver.ml", "log": dlog[-2000:]}, no_input=True)
else:
    env = dict(os.environ, ASAN_OPTIONS="detect_leaks=1", UBSAN_OPTIONS="print_stacktrace=1")
    # the harness spends its time creating real threads under ASan: the default cases run as 4 contiguous chunks on the main
    # executable, the API-variant cases on the two variant executables, all in parallel
    def exe_of(c):
        pc_ = parse_case(c)
        return exes[VARIANT_SET.get((pc_["variant"], pc_["elem"]), 0)]
    main_idx = [i for i, c in enumerate(cases) if exe_of(c) == exes[0]]
    jobs = []                                            # (exe, [case indices])
    for e_ in exes[1:]:
        part = [i for i, c in enumerate(cases) if exe_of(c) == e_]
        if part: jobs.append((e_, part))
    for k in range(4):
        part = main_idx[len(main_idx) * k // 4:len(main_idx) * (k + 1) // 4]
        if part: jobs.append((exes[0], part))
    job_files = []
    for k, (e_, part) in enumerate(jobs):
        cf = os.path.join(ck.scratch, "cases_%d.txt" % k)
        open(cf, "w").write("\n".join(cases[i] for i in part) + "\n")
        job_files.append(cf)
    with ThreadPoolExecutor(5) as ex:                  # at most 4 harness processes + the model at a time
        fm = ex.submit(verif.sh, [drv, casefile], 3000)
        fs = [ex.submit(verif.sh, [e_, cf], 3000, None, env) for (e_, _), cf in zip(jobs, job_files)]
        rc2, out2 = fm.result()
        job_res = [f.result() for f in fs]
    phase_s["run"] = round(_time.time() - _t0 - phase_s["prove"] - phase_s["build_harness"], 1)
    # put the lines back in case order; a job that died early leaves the rest of its cases without a line
    impl = [None] * len(cases); rc1 = 0; out1 = ""; crashed = []          # crashed: (case index, exe, log)
    for (e_, part), (r, o) in zip(jobs, job_res):
        ls = [l for l in o.splitlines() if l.startswith("keys=") or l == "?"]
        for i, l in zip(part, ls):
            impl[i] = l
        if len(ls) < len(part):
            crashed.append((part[len(ls)], e_, o))
        elif r != 0 and rc1 == 0:
            rc1 = r; out1 = o                        # e.g. LeakSanitizer report at exit; all lines present
    model = out2.splitlines()
    if rc2 != 0 or len(model) != len(cases):
        ck.violation("extracted model failed on the case file", {"correspondence": "ocaml/C06_driver.ml", "log": out2[-1500:]}, no_input=True)
    # pass 1: statistics, model self-check, and the property verdict on the implementation's output alone; property
    # violations (wrong / unstable / unsorted result, leak, lifetime error) are reported first, each with its input
    footprint_diffs = []
    prop_reports = 0
    for idx, c in enumerate(cases):
        if idx >= len(model):
            break
        if impl[idx] is None:
            continue
        a = impl[idx].strip(); b = model[idx].strip()
        pc = parse_case(c); n = len(pc["keys"]); p = pc["p"]
        stats["variant_" + pc["variant"]] = stats.get("variant_" + pc["variant"], 0) + 1
        stats["stable" if pc["stable"] else "unstable"] += 1
        stats["exact" if pc["split"] == "E" else "sampling"] += 1
        stats[pc["elem"]] += 1
        if n <= 1: stats["n<=1"] += 1
        elif n < p: stats["n<threads"] += 1
        elif n % p: stats["n_not_multiple_of_threads"] += 1
        if pc["greater"] and pc["split"] == "X" and min(n, p) >= 2: stats["sampling_comparator_not_natural_order"] += 1
        if n >= 2 and min(n, p) >= 2: distinct.add(c)
        fb = fields(b)
        if pc["elem"] == "pair" and n >= 2:
            nwin = len(ints(fb["win"])) if fb.get("win") not in (None, "-", "") else 0
            if nwin < min(n, p): stats["some_thread_merges_nothing"] += 1
        if fb.get("win") not in (None, "-", ""):
            ks = ints(fb["keys"]); pos = 0
            for w in ints(fb["win"])[:-1]:
                pos += w
                if ks[pos - 1] == ks[pos]:
                    stats["tie_across_window_boundary"] += 1; break
        if "MODEL-" in b:
            ck.violation("model self-check failed: " + b[-40:], {"case": c, "model": b, "theorem_or_correspondence": "C06_extracted_model_correct vs extracted model"}, no_input=True)
            break
        verdict = property_verdict(c, a)
        if verdict is not None:
            found = True
            if prop_reports < 3:
                prop_reports += 1
                ck.violation("%s: %s" % ("stable_parallel_mergesort" if pc["stable"] else "parallel_mergesort", verdict),
                             {"case": c, "impl": a[:600], "model": b[:600], "replay_cmd": "bin/check C06 --replay <this file>"})
        elif a != b:
            footprint_diffs.append((c, a, b))
    # pass 2: differences the property leaves open (merge windows / write footprint) - correspondence only
    for c, a, b in footprint_diffs[:2]:
        ck.violation("implementation differs from the model (merge windows / footprint): impl=%s model=%s" % (a[-100:], b[-100:]),
                     {"case": c, "impl": a[:600], "model": b[:600], "correspondence": "harness/C06/pms_harness.cpp vs coq/C06/PMS.v",
                      "footprint_differences_total": len(footprint_diffs)},
                     no_input=True)
    for ci, e_, o_ in crashed[:2]:
        # crash (sanitizer / signal) or deadlock in the middle of a job: the first case of that job without an output line
        c = cases[ci]
        if "C06-WATCHDOG" in o_:
            # the harness's watchdog names the case itself: no result within its limit (the calling thread sits in join())
            found = True
            ck.violation("real (stable_)parallel_mergesort does not terminate (no result within the harness's time limit; deadlock)",
                         {"case": c, "watchdog": [l for l in o_.splitlines() if l.startswith("C06-WATCHDOG")][0][:300],
                          "replay_cmd": "bin/check C06 --replay <this file>"})
            continue
        r, o = run_one(e_, c, env)
        found = True
        ck.violation("real (stable_)parallel_mergesort crashes under ASan/UBSan on a valid input" if r != 0 else
                     "real (stable_)parallel_mergesort crashed under ASan/UBSan in a batch run (not reproduced alone)",
                     {"case": c, "sanitizer_report_head": san_head(o if r != 0 else o_),
                      "log_tail": (o if r != 0 else o_)[-1500:]})
    if rc1 != 0 and ck.violations == 0:
        ck.violation("sanitizer report at exit of the harness (rc=%d) although every case printed a clean line" % rc1,
                     {"correspondence": "harness/C06/pms_harness.cpp", "log_tail": out1[-2500:]}, no_input=True)
    pick = [0, ncorpus, ncorpus + 4321, len(cases) - 1]
    samples = [{"case": cases[i][:300], "result": impl[i][:300]} for i in pick if 0 <= i < len(impl) and impl[i] is not None]

    # ------------------------------------------------------------ thorough: ThreadSanitizer build on a subset
    if ck.thorough() and ck.violations == 0 and not ck.replay:
        texe, tlog = ck.build_cpp("c06_harness_tsan", ["harness/C06/pms_harness.cpp"], repo_sources=REPO_SRC,
                                  flags=["-std=c++17", "-O1", "-g", "-fsanitize=thread"], extra=["-DC06_SET=0"])
        if texe is None:
            tsan = {"built": False}
        else:
            sub = cases[:ncorpus] + [c for i, c in enumerate(cases[ncorpus:]) if i % 9 == 0 and len(c) < 2500 and parse_case(c)["variant"] == "avk5" and parse_case(c)["elem"] != "pod"][:4000]
            tf = os.path.join(ck.scratch, "tsan_cases.txt"); open(tf, "w").write("\n".join(sub) + "\n")
            rc3, out3 = verif.sh([texe, tf], timeout=3000, env=dict(os.environ, TSAN_OPTIONS="halt_on_error=1 second_deadlock_stack=1"))
            lines3 = [l for l in out3.splitlines() if l.startswith("keys=")]
            tsan = {"built": True, "cases": len(sub), "completed": len(lines3), "rc": rc3}
            if "ThreadSanitizer: data race" in out3 or (rc3 != 0 and "ThreadSanitizer" in out3 and "unsupported" not in out3 and "FATAL" not in out3):
                found = True
                c = sub[len(lines3)] if len(lines3) < len(sub) else None
                ck.violation("ThreadSanitizer reports a data race inside (stable_)parallel_mergesort",
                             {"case": c, "log_tail": out3[-3000:]})
            elif "C06-WATCHDOG" in out3:
                found = True
                ck.violation("(stable_)parallel_mergesort does not terminate in the ThreadSanitizer build (deadlock)",
                             {"case": sub[len(lines3)] if len(lines3) < len(sub) else None, "log_tail": out3[-800:]})
            elif rc3 != 0:
                tsan["note"] = "ThreadSanitizer runtime unavailable in this environment: " + out3[-200:]

# ---------------------------------------------------------------- thorough: the _OPENMP branch of parallel_mergesort_base
openmp = None
if ck.thorough() and exe is not None and drv is not None and ck.violations == 0 and not ck.replay:
    oexe, olog = ck.build_cpp("c06_harness_omp", ["harness/C06/pms_harness.cpp"], repo_sources=REPO_SRC,
                              flags=verif.CXXFLAGS_SAN + ["-fopenmp"], extra=["-DC06_SET=0"])
    if oexe is None:
        openmp = {"built": False, "log": olog[-300:]}
    else:
        sub = [c for c in cases[:ncorpus] if parse_case(c)["variant"] == "avk5" and parse_case(c)["elem"] != "pod"] + \
              [c for i, c in enumerate(cases[ncorpus:]) if i % 7 == 0 and len(c) < 2500 and parse_case(c)["variant"] == "avk5" and parse_case(c)["elem"] != "pod"][:3000]
        of = os.path.join(ck.scratch, "omp_cases.txt"); open(of, "w").write("\n".join(sub) + "\n")
        env_o = dict(os.environ, ASAN_OPTIONS="detect_leaks=1", OMP_DYNAMIC="false")
        for k_ in ("OMP_THREAD_LIMIT", "OMP_NUM_THREADS"): env_o.pop(k_, None)
        rc4, out4 = verif.sh([oexe, of], timeout=1500, env=env_o)
        lines4 = [l for l in out4.splitlines() if l.startswith("keys=")]
        openmp = {"built": True, "cases": len(sub), "completed": len(lines4), "rc": rc4}
        for c, l in zip(sub, lines4):
            v_ = property_verdict(c, l)
            if v_ is not None:
                found = True
                ck.violation("OpenMP build of (stable_)parallel_mergesort: " + v_, {"case": c, "impl": l[:600], "build": "-fopenmp"})
                break
        if len(lines4) < len(sub) and ck.violations == 0:
            found = True
            ck.violation("OpenMP build of (stable_)parallel_mergesort crashes or does not terminate on a valid input",
                         {"case": sub[len(lines4)], "build": "-fopenmp", "sanitizer_report_head": san_head(out4), "log_tail": out4[-1200:]})

if pr is not None and not pr["ok"]:
    ck.proof_broken(found)

ck.finish({
    "evaluations": len(cases),
    "distinct_nontrivial": len(distinct),
    "rule": "one case per grid point (n 0..70) x (threads 1..20) x (exact, sampling) x (key universe 1..4) [x5 in the thorough tier], one per "
            "(threads 9..24) x (17 <= n < 2*threads) x (exact, sampling) x (2, 3 keys), threads 25..33 around n = threads, API variants "
            "(entry point / iterator kind / comparator kind / defaulted arguments, see api_surface) drawn per case, plus "
            "larger random inputs; pattern, element type (int / (key,index) with writer tags / heap-owning ledger type), stable or not, "
            "less or greater, oversampling 1/2/3/10 drawn per case. Non-trivial = n >= 2 and at least two threads after clamping "
            "(runs are split, partitioned and merged); distinct = distinct case text. Each case runs on the real sort with real "
            "threads (ASan+UBSan+LSan) and on the extracted Coq model; result arrangement, merge windows (writer thread of every "
            "position), live-instance delta and ledger errors are compared; the implementation's line is first judged against the "
            "property alone (sorted, permutation, equal to stable order, no leak).",
    "exhaustive": False,
    "api_surface": API_SURFACE,
    "hardware_concurrency": hw,
    "samples": samples,
    "input_distribution": dict(stats, **{"source_" + k: v for k, v in hist.items()},
                               **{"pattern_%d" % k: v for k, v in sorted(pat_hist.items())}),
    "tsan": tsan,
    "openmp": openmp,
    "phase_seconds": phase_s,
}, assumptions=[
    "std::sort / std::stable_sort / std::lower_bound / uninitialized_copy are modelled by their specifications",
    "multisequence_partition (C08) and multiway_merge_base (C05) enter the theorems through their specifications "
    "(is_split / stable merge); the correspondence runs the real ones",
    "the partition tie-rule repair of C08 (fixes/C08) is applied to the tree (exact splitting depends on it)",
    "data-race freedom at the C++ memory-model level is supported by the footprint theorem + real-thread runs (TSan in the thorough tier), not proved",
    "extraction: ExtrOcamlBasic only; nat/list stay Coq inductives",
])
