#!/usr/bin/env python3
"""C08 — multisequence_partition / multisequence_selection.

Coq: uniqueness of the tie-broken split, existence (the merged-order split), soundness + completeness of the
boolean checker, partial algorithmic theorems (Properties_C08.v).  Tie to /repo: bounded-exhaustive + random
correspondence of the real templates (ASan/UBSan) against the OCaml extraction of the Gallina model; every
implementation answer that differs from the model is decided by the extracted checker / specification alone."""
import concurrent.futures
import json
import os
import sys

HERE = os.path.dirname(os.path.abspath(__file__))
sys.path.insert(0, os.path.join(HERE, "..", "lib"))
import verif

ck = verif.Check("C08")
rng = ck.rng

POW = [1, 2, 3, 4, 7, 8, 9, 15, 16, 17, 31, 32, 33]
BIG = [1000, 1023, 1024, 1025, 511, 513]


def fmt(seqs):
    return "|".join(",".join(str(x) for x in s) for s in seqs)


def make_seq(cmpc, n, keys):
    """a sequence of n elements sorted w.r.t. the comparator; Q compares x/4 and gets arbitrary low bits"""
    if cmpc == "Q":
        ks = sorted(rng.below(keys) for _ in range(n))
        return [4 * k + rng.below(4) for k in ks]
    xs = sorted(rng.below(keys) for _ in range(n))
    return xs[::-1] if cmpc == "G" else xs


def ranks_for(seqs, count):
    N = sum(len(s) for s in seqs)
    nmax = max(len(s) for s in seqs)
    l = 1
    while l < nmax + 1:
        l *= 2
    l -= 1
    rs = {0, 1, N - 1, N, N // 2, min(N, l), max(0, min(N, l) - 1), min(N, l + 1)}
    while len(rs) < count:
        rs.add(rng.below(N + 1))
    return sorted(r for r in rs if 0 <= r <= N)


def gen_random(k):
    """k random tuples; small ones with every rank, large ones with boundary + random ranks"""
    out = []
    for _ in range(k):
        cmpc = rng.choice(["L", "L", "G", "Q"])
        shape = rng.below(10)
        keys = rng.choice([1, 2, 2, 3, 3, 5, 1000])
        if shape < 6:                       # lengths around powers of two
            m = rng.range(1, 6)
            seqs = [make_seq(cmpc, rng.choice(POW), keys) for _ in range(m)]
        elif shape < 8:                     # very unequal: short ones against one long one
            m = rng.range(2, 4)
            lens = [rng.choice([1, 1, 2, 3]) for _ in range(m)]
            lens[rng.below(m)] = rng.choice(BIG)
            seqs = [make_seq(cmpc, n, keys) for n in lens]
        else:                               # arbitrary small lengths, many sequences
            m = rng.range(2, 9)
            seqs = [make_seq(cmpc, rng.range(1, 12), keys) for _ in range(m)]
        N = sum(len(s) for s in seqs)
        if N <= 80:
            # every rank; one tuple in eight with every template variant on every rank, the others rotating
            out.append("%s %s %s" % ("all" if rng.chance(1, 8) else "rot", cmpc, fmt(seqs)))
        else:
            for r in ranks_for(seqs, 12 if N > 400 else 20):
                out.append("one %s %d %s" % (cmpc, r, fmt(seqs)))
    return out



# ---------------------------------------------------------------- padded length + virtual (huge) sequences
def gen_pad():
    """x for `pad` lines: l = round_up_to_power_of_two(x + 1) - 1 around every power of two up to 2^62, + random"""
    xs = set()
    for k in range(0, 63):
        for dlt in (-2, -1, 0, 1):
            x = (1 << k) + dlt
            if 0 <= x <= (1 << 62) - 1:
                xs.add(x)
    for _ in range(150):
        bits = rng.range(1, 62)
        xs.add(rng.below(1 << bits))
    return ["pad %d" % x for x in sorted(xs)]


BIGLEN = [(1 << 32) + 70000, 1 << 32, (1 << 32) - 1, (1 << 32) + 1, (1 << 33) + 5, 3 * (1 << 31) + 7, (1 << 32) + (1 << 31)]
SMALLLEN = [1, 1, 2, 3, 5, 1000, 70000, (1 << 31) - 1]


def virt_parse(desc):
    return [[(int(r.split("*")[0]), int(r.split("*")[1])) for r in q.split(",")] for q in desc.split("|")]


def virt_expected(line):
    """the specification (stable merge by (value, sequence)) evaluated on run-length encoded sequences"""
    _, c, rank, desc = line.split()
    rank = int(rank)
    seqs = virt_parse(desc)
    N = sum(cnt for q in seqs for _, cnt in q)
    segs = sorted(((key if c == "L" else -key), i, ri, cnt, key) for i, q in enumerate(seqs) for ri, (key, cnt) in enumerate(q))
    offs = [0] * len(seqs)
    left = rank
    sel = "throw"
    before = 0
    for ok, i, ri, cnt, key in segs:
        take = min(cnt, left)
        offs[i] += take
        left -= take
        if sel == "throw" and rank < N and before + cnt > rank:
            less = sum(c2 for ok2, _, _, c2, _ in segs if ok2 < ok)
            sel = "%d:%d" % (key, rank - less)
        before += cnt
    return "V%s %s => %d:%s:%s" % (c, desc, rank, ",".join(str(o) for o in offs), sel)


def gen_virtual(k):
    out = []
    for _ in range(k):
        c = rng.choice(["L", "L", "L", "G"])
        m = rng.range(1, 4)
        big = rng.below(m) if rng.chance(9, 10) else -1
        seqs = []
        for i in range(m):
            nruns = rng.range(1, 4)
            keys = sorted(rng.below(4) for _ in range(nruns))
            if c == "G":
                keys = keys[::-1]
            runs = [(key, rng.choice(SMALLLEN)) for key in keys]
            if i == big:
                j = rng.below(nruns)
                runs[j] = (runs[j][0], rng.choice(BIGLEN))
            seqs.append(runs)
        desc = "|".join(",".join("%d*%d" % r for r in q) for q in seqs)
        N = sum(cnt for q in seqs for _, cnt in q)
        rs = {0, 1, N - 1, N, N // 2, min(N, 1 << 32), min(N, (1 << 32) - 1), min(N, (1 << 32) + 1), min(N, 131071), min(N, 131072)}
        acc = 0
        for ok, i, ri, cnt, key in sorted(((key if c == "L" else -key), i, ri, cnt, key) for i, q in enumerate(seqs) for ri, (key, cnt) in enumerate(q)):
            acc += cnt
            rs.update(x for x in (acc - 1, acc, acc + 1) if 0 <= x <= N)
        for _ in range(4):
            rs.add(rng.below(N + 1))
        for r in sorted(rs):
            out.append("virt %s %d %s" % (c, r, desc))
    return out


def gen_domain(k):
    """the edge of the documented domain: no sequence (m = 0), no data, ranks outside [0, N) for the selection (must throw),
    single sequences, sequences of length 1"""
    out = ["all L -", "one G 0 -", "all Q -", "sel L 0 -", "sel G 5 -", "sel Q -3 -",
           "sel L 0 |", "sel L 2 ||", "sel G -1 |||", "sel Q 0 |"]
    for _ in range(k):
        cmpc = rng.choice(["L", "G", "Q"])
        m = rng.range(1, 5)
        keys = rng.choice([1, 2, 3, 50])
        seqs = [make_seq(cmpc, rng.choice([1, 1, 1, 2, 3, 7, 8, 9]), keys) for _ in range(m)]
        N = sum(len(x) for x in seqs)
        for r in (-1, -rng.range(2, 1000), N, N + 1, N + rng.range(2, 100000), rng.below(N), 0, N - 1):
            out.append("sel %s %d %s" % (cmpc, r, fmt(seqs)))
        out.append("all %s %s" % (cmpc, fmt(seqs)))
    return out


MANY_BANDS = [[2, 3], [2, 3], [4, 5, 6, 7], [4, 5, 6, 7], [1, 2, 3], [2, 3, 4], [1, 2, 3, 4, 5, 6], [1, 2, 3, 4, 5, 6, 1, 2, 3, 4, 7, 8, 9],
              [3, 4, 5], [7, 8, 9]]


def gen_many(budget):
    """MANY short sequences (more than libstdc++'s insertion-sort cut-off of 16, where an unstable sort of the sample
    shows): m in {17,...,100}, lengths from a band (most often one binade [2^k, 2^(k+1)-1], so that nearly every sequence
    contributes a real sample at the first level - measured: with a value-only sample sort every such tuple fails; fully
    mixed lengths 1..9 dilute that), 1..4 distinct keys, every rank. `budget` bounds sum((N+1)*m), which the model's running
    time is proportional to (about 30 us per unit). Judged by the extracted model / checker like every explicit-list case."""
    out = []
    n = 0
    while n < budget:
        cmpc = rng.choice(["L", "L", "G", "Q"])
        m = rng.choice([17, 18, 24, 32, 33, 48, 64, 100, 17, 18, 24, 33, 17, 18])
        keys = rng.range(1, 4)
        band = rng.choice(MANY_BANDS)
        seqs = [make_seq(cmpc, rng.choice(band), keys) for _ in range(m)]
        out.append("rot %s %s" % (cmpc, fmt(seqs)))
        n += (sum(len(x) for x in seqs) + 1) * m
    return out


def gen_narrow():
    """RankType narrower than the total number of elements (unsigned char with N > 255, short with N > 32767)"""
    out = []
    for _ in range(30):
        lens = [rng.range(60, 200) for _ in range(rng.range(2, 4))]
        seqs = [sorted(rng.below(3) for _ in range(n)) for n in lens]
        N = sum(lens)
        for r in sorted({0, 1, N % 256, (N % 256) - 1 if N % 256 else 0, 100, 255, rng.below(256)}):
            if 0 <= r <= min(N, 255):
                out.append("narrow L uchar %d %s" % (r, fmt(seqs)))
    for _ in range(3):
        lens = [rng.range(20000, 30000) for _ in range(3)]
        seqs = [sorted(rng.below(2) for _ in range(n)) for n in lens]
        N = sum(lens)
        for r in sorted({0, N % 65536, 12345, 32767}):
            if 0 <= r <= 32767:
                out.append("narrow L short %d %s" % (r, fmt(seqs)))
    return out


def gen_narrow_virtual():
    out = []
    for n in ((1 << 32) + 70000, (1 << 32) + 5, (1 << 33) + 17):
        for r in (0, 5, 17, 70000, 12345678, (1 << 31) - 1):
            out.append("virtn L %d 1*%d|1*3,2*4" % (r, n))
            out.append("virtn L %d 0*7,1*%d" % (r, n))
    return out

# ---------------------------------------------------------------- the shards (each: list of case lines)
corpus = [l.strip() for l in open(os.path.join(verif.VERIF, "corpus", "C08", "cases.txt")) if l.strip()]
shards = []
if ck.replay:
    shards.append(("replay", [json.load(open(ck.replay))["case"]]))
elif ck.thorough():
    shards.append(("corpus", corpus))
    shards.append(("exh-L-m3-len5-k3", ["exh L 1 1 9 3", "exh L 2 1 5 3", "exh L 3 1 5 3"]))
    shards.append(("exh-G-m3-len5-k3", ["exh G 1 1 9 3", "exh G 2 1 5 3", "exh G 3 1 5 3"]))
    shards.append(("exh-L-m4-len3-k3", ["exh L 4 1 3 3"]))
    shards.append(("exh-G-m4-len3-k2+Q", ["exh G 4 1 3 2", "exh Q 3 1 4 2", "exh Q 2 1 5 3"]))
    shards.append(("exh-L-m3-len9-k2", ["exh L 3 1 9 2"]))
    shards.append(("exh-LG-m2-len17-k2", ["exh L 2 1 17 2", "exh G 2 1 17 2", "exh Q 3 1 5 2"]))
    shards.append(("exh-L-m4-len5-k2", ["exh L 4 1 5 2"]))
    shards.append(("exh-G-m3-len8-k2", ["exh G 3 1 8 2"]))
    for i in range(4):
        shards.append(("random-%d" % i, gen_random(2500)))
    shards.append(("virtual", gen_virtual(400)))
    shards.append(("pad", gen_pad()))
    shards.append(("domain", gen_domain(400)))
    for i in range(8):
        shards.append(("many-sequences-%d" % i, gen_many(1000000)))
else:
    shards.append(("corpus", corpus))
    shards.append(("exh-L-m3-len4-k3-a", ["exh L 1 1 9 3", "exh L 2 1 4 3", "exh L 3 1 4 3 0 2"]))
    shards.append(("exh-L-m3-len4-k3-b", ["exh L 3 1 4 3 1 2"]))
    shards.append(("exh-G-m3", ["exh G 2 1 4 3", "exh G 3 1 3 3", "exh G 4 1 2 2"]))
    shards.append(("exh-L-m4-len2-k3+Q", ["exh L 4 1 2 3", "exh Q 2 1 4 3", "exh Q 3 1 3 2"]))
    shards.append(("exh-L-m2-len12-k2", ["exh L 2 1 12 2", "exh L 3 1 5 2"]))
    for i in range(2):
        shards.append(("random-%d" % i, gen_random(700)))
    shards.append(("virtual", gen_virtual(40)))
    shards.append(("pad", gen_pad()))
    shards.append(("domain", gen_domain(60)))
    for i in range(2):
        shards.append(("many-sequences-%d" % i, gen_many(120000)))

# RankType narrower than the total (defect fixed in /repo b429853: N was accumulated in RankType): the witnesses of
# corpus/C08/narrow.txt and virtual_narrow.txt first, then generated cases; run right after the corpus.
if not ck.replay:
    def _corpus(fn):
        return [l.strip() for l in open(os.path.join(verif.VERIF, "corpus", "C08", fn)) if l.strip()]
    shards.insert(1, ("narrow", _corpus("narrow.txt") + gen_narrow()))
    shards.insert(2, ("narrow-virtual", _corpus("virtual_narrow.txt") + gen_narrow_virtual()))

# ---------------------------------------------------------------- build + run
# The harness instantiates both templates for 10 variants x 3 comparators; it is compiled as four translation units
# in parallel (-DC08_PART=0..3) while the extracted model already runs on the shards (4 jobs at a time).
pool = concurrent.futures.ThreadPoolExecutor(max_workers=4)
CXXF = ["-std=c++17", "-O1", "-g1", "-fsanitize=address,undefined", "-fno-sanitize-recover=all", "-fno-omit-frame-pointer"]
parts = [pool.submit(ck.build_cpp, "c08_part%d.o" % i, ["harness/C08/msp_harness.cpp"], CXXF + ["-c", "-DC08_PART=%d" % i])
         for i in range(4)]
pr = ck.prove()
drv, dlog = ck.ocaml_driver("C08")
files = []
for k, (name, lines) in enumerate(shards):
    p = os.path.join(ck.scratch, "cases_%d.txt" % k)
    open(p, "w").write("\n".join(lines) + "\n")
    files.append(p)
TMO = 3000
TIMING = {}


def timed_sh(tag, cmd, timeout=None, cwd=None, env=None):
    import time as _t
    t0 = _t.time()
    r = verif.sh(cmd, timeout, cwd, env)
    TIMING[tag] = round(_t.time() - t0, 1)
    return r


def virt_model(lines):
    return 0, "\n".join(virt_expected(l) for l in lines if l.startswith("virt")) + "\n"


def is_virt(lines):
    return bool(lines) and all(l.startswith("virt ") or l.startswith("virtn ") for l in lines)


# virtual sequences cannot be materialised for the extracted model: their expected answers come from virt_expected
fm = [(pool.submit(virt_model, lines) if is_virt(lines) else pool.submit(timed_sh, "model:" + nm, [drv, p], TMO))
      for p, (nm, lines) in zip(files, shards)] if drv else []
special = {"virtual_evaluations": 0, "pad_evaluations": 0}
objs = [f.result() for f in parts]
exe, log = None, "\n".join(l for _, l in objs)
if all(o for o, _ in objs):
    exe, log = ck.build_cpp("c08_harness", [o for o, _ in objs], ["-fsanitize=address,undefined"])
found = False
reported = 0
stats = {"entries": 0, "nontrivial_distinct": 0}
variant_calls = {}
hist = {"cmp": {}, "m": {}, "maxlen": {}}
samples = []
tuples_run = 0


def bucket(n):
    for b in (1, 2, 4, 8, 16, 32, 64, 128, 512):
        if n <= b:
            return "<=%d" % b
    return ">512"


def first_bad_case(line, verdict):
    """turn an implementation output line + judge verdict into a single-rank replay case"""
    c, s = line.split(" ")[0:2]
    r = verdict.split("rank=")[1].split(":")[0] if "rank=" in verdict else "0"
    if len(c) == 2 and c[0] == "S":
        return "sel %s %s %s" % (c[1], r, s)
    return "one %s %s %s" % (c, r, s)


def judge(lines):
    p = os.path.join(ck.scratch, "judge.txt")
    open(p, "w").write("\n".join(lines) + "\n")
    rc, out = verif.sh([drv, p, "--judge"], timeout=600)
    return out.splitlines()


if exe is None:
    ck.violation("correspondence harness does not compile against /repo",
                 {"correspondence": "harness/C08/msp_harness.cpp", "log": log[-2000:]}, no_input=True)
elif drv is None:
    ck.violation("extracted model/driver does not build",
                 {"correspondence": "ocaml/C08_driver.ml", "log": dlog[-2000:]}, no_input=True)
else:
    env = dict(os.environ, ASAN_OPTIONS="detect_leaks=1")
    fi = [pool.submit(timed_sh, "impl:" + nm, [exe, p], TMO, None, env) for p, (nm, _) in zip(files, shards)]
    results = [(a.result(), b.result()) for a, b in zip(fi, fm)]

    for (name, lines), ((rc1, out1), (rc2, out2)) in zip(shards, results):
        impl = out1.splitlines()
        for l in impl:
            if l.startswith("#VARIANTS"):
                for kv in l.split()[1:]:
                    k, v = kv.rsplit("=", 1)
                    variant_calls[k] = variant_calls.get(k, 0) + int(v)
        impl = [l for l in impl if not l.startswith("#")]
        model = [l for l in out2.splitlines()]
        st = [l for l in model if l.startswith("#STATS")]
        model = [l for l in model if not l.startswith("#")]
        for l in st:
            for kv in l.split()[1:]:
                k, v = kv.split("=")
                stats[k] = stats.get(k, 0) + int(v)
        if rc2 != 0:
            ck.violation("extracted model crashed / timed out on shard %s" % name,
                         {"correspondence": "ocaml/C08_driver.ml", "shard": name, "log_tail": out2[-1500:]}, no_input=True)
            continue
        if rc1 != 0:
            # crash under ASan/UBSan (or failed assertion): the model's line at the position where the
            # implementation's output stops names the tuple; bisect to a single rank
            found = True
            if name.startswith("narrow"):
                nclean = 0
                while nclean < len(impl) and " =>" in impl[nclean]:
                    nclean += 1
                wrong = [i for i in range(min(nclean, len(model))) if impl[i] != model[i]]
                if reported < 3:
                    reported += 1
                    if wrong:       # a wrong answer before the abort is the better witness
                        i = wrong[0]
                        v = judge([impl[i]])[0] if impl[i].startswith("L ") else "spec-evaluation differs"
                        ck.violation("RankType narrower than the total number of elements: %s; impl=%s expected=%s"
                                     % (v, impl[i][-70:], model[i][-70:]),
                                     {"case": lines[i], "verdict": v, "impl": impl[i][-300:], "expected": model[i][-300:]})
                    else:
                        ck.violation("RankType narrower than the total: a valid rank aborts (assertion rank < N on a wrapped total) or crashes",
                                     {"case": lines[nclean] if nclean < len(lines) else None, "log_tail": out1[-800:]})
                continue
            if reported >= 3:
                continue
            reported += 1
            # sanitizer reports follow the clean lines; the tuple is the first model line without an impl twin
            idx = 0
            while idx < len(impl) and idx < len(model) and impl[idx] == model[idx]:
                idx += 1
            case = None
            logt = out1[-2500:]
            if is_virt(lines):
                # one output line per case: the crashing case follows the last clean output line
                nclean = 0
                while nclean < len(impl) and impl[nclean].startswith("V"):
                    nclean += 1
                wrong = [i for i in range(min(nclean, len(model))) if impl[i] != model[i]]
                if wrong:       # a wrong answer before the crash is the better witness
                    ck.violation("answer on virtual (index-computed, > 2^32 elements) sequences violates the specification of "
                                 "partition_correct/selection_correct: impl=%s spec=%s" % (impl[wrong[0]][:300], model[wrong[0]][:300]),
                                 {"case": lines[wrong[0]], "impl": impl[wrong[0]][:2000], "spec": model[wrong[0]][:2000]})
                    continue
                case = lines[nclean] if nclean < len(lines) else None
            elif idx < len(model):
                c, s = model[idx].split(" ")[0:2]
                N = sum(len(x.split(",")) for x in s.split("|"))
                for r in range(N + 1):
                    one = os.path.join(ck.scratch, "one.txt")
                    open(one, "w").write("one %s %d %s\n" % (c, r, s))
                    r1, o1 = verif.sh([exe, one], timeout=120, env=env)
                    if r1 != 0:
                        case = "one %s %d %s" % (c, r, s); logt = o1[-2500:]; break
                if case is None:
                    case = "all %s %s" % (c, s)
            ck.violation("multisequence_partition/selection crashes (sanitizer report or failed assertion) on a valid input",
                         {"case": case, "shard": name, "log_tail": logt})
            continue
        # line-by-line comparison
        mism = [i for i in range(max(len(impl), len(model)))
                if i >= len(impl) or i >= len(model) or impl[i] != model[i]]
        spec_bad = [l for l in model if "MODEL-DIFFERS-FROM-SPEC" in l]
        if name.startswith("narrow") and mism:
            # one output line per case; the answer is decided by the extracted checker (explicit lists) resp. the spec (virtual)
            i = mism[0]
            a = impl[i] if i < len(impl) else "<missing>"
            b = model[i] if i < len(model) else "<missing>"
            v = judge([a])[0] if (a.startswith("L ") and i < len(impl)) else "spec-evaluation differs"
            found = True
            if reported < 3:
                reported += 1
                ck.violation("RankType narrower than the total number of elements: %s; impl=%s expected=%s" % (v, a[-70:], b[-70:]),
                             {"case": lines[i] if i < len(lines) else None, "verdict": v, "impl": a[-300:], "expected": b[-300:]})
        if name.startswith("narrow"):
            special["narrow_evaluations"] = special.get("narrow_evaluations", 0) + len(impl)
            if name == "narrow-virtual":
                special["narrow_virtual_evaluations"] = special.get("narrow_virtual_evaluations", 0) + len(impl)
            continue
        sp = [i for i in mism if (i < len(impl) and (impl[i].startswith("V") or impl[i].startswith("pad ")))
              or (i < len(model) and (model[i].startswith("V") or model[i].startswith("pad ")))]
        mism = [i for i in mism if i not in set(sp)]
        for i in sp[:(1 if name == "pad" else 2)]:      # own small caps: a pad mismatch must not hide a virtual witness
            a = impl[i] if i < len(impl) else "<missing>"
            b = model[i] if i < len(model) else "<missing>"
            if a.startswith("V") or b.startswith("V"):
                found = True
                c, desc = (a if a.startswith("V") else b).split(" ")[0:2]
                rank = (a if a.startswith("V") else b).split(" => ")[1].split(":")[0].strip()
                ck.violation("answer on virtual (index-computed, > 2^32 elements) sequences violates the specification of "
                             "partition_correct/selection_correct: impl=%s spec=%s" % (a[:300], b[:300]),
                             {"case": "virt %s %s %s" % (c[1:], rank, desc), "impl": a[:2000], "spec": b[:2000]})
            else:
                ck.violation("padded length round_up_to_power_of_two(x+1)-1 differs from the model's rup2: impl=%s model=%s" % (a, b),
                             {"correspondence": "MSP.rup2 vs tlx/math/round_to_power_of_two.hpp", "case": a.split(" =>")[0], "impl": a, "model": b},
                             no_input=True)
        if mism:
            bad_idx = [i for i in mism[:200] if i < len(impl)]
            bad_lines = [impl[i] for i in bad_idx]
            verdicts = judge(bad_lines) if bad_lines else []
            one_per_line = not any(l.startswith("exh") for l in lines)
            for bi, ln, v in zip(bad_idx, bad_lines, verdicts):
                if v.startswith("bad"):
                    found = True
                    if reported < 3:
                        case = first_bad_case(ln, v)
                        if one_per_line and bi < len(lines) and lines[bi].startswith("narrow "):
                            case = lines[bi]        # keep the RankType of the case
                        ck.violation("implementation answer violates the property (decided by the extracted checker): %s on %s"
                                     % (v, ln[:160]), {"case": case, "impl": ln[:2000], "verdict": v,
                                                       "replay_cmd": "bin/check C08 --replay <this file>"})
                        reported += 1
            if not any(v.startswith("bad") for v in verdicts):
                i = mism[0]
                ck.violation("implementation and model differ although the checker accepts the implementation's answer "
                             "(correspondence broken) in shard %s" % name,
                             {"correspondence": "coq/C08/MSP.v vs tlx/algorithm/multisequence_{partition,selection}.hpp",
                              "impl": impl[i][:2000] if i < len(impl) else "<missing>",
                              "model": model[i][:2000] if i < len(model) else "<missing>"}, no_input=True)
        if spec_bad and not found:
            ck.violation("the model no longer equals its specification on a case (model/spec self-check)",
                         {"theorem_or_correspondence": "partition = split_spec / selection = select_spec", "model": spec_bad[0][:2000]},
                         no_input=True)
        # coverage
        for l in impl:
            parts = l.split(" ", 2)
            if len(parts) < 3:
                continue
            if l.startswith("V"):
                special["virtual_evaluations"] += 1
                continue
            if l.startswith("pad "):
                special["pad_evaluations"] += 1
                continue
            tuples_run += 1
            seqs = parts[1].split("|") if parts[1] != "-" else []
            hist["cmp"][parts[0]] = hist["cmp"].get(parts[0], 0) + 1
            hist["m"][str(len(seqs))] = hist["m"].get(str(len(seqs)), 0) + 1
            b = bucket(max([s.count(",") + 1 for s in seqs if s] + [0]))
            hist["maxlen"][b] = hist["maxlen"].get(b, 0) + 1
        if impl and len(samples) < 6:
            k = len(impl) // 2
            exh = any(l.startswith("exh") for l in lines)
            samples.append({"shard": name, "case": ("(enumerated by) " + " ; ".join(lines)) if exh else lines[k][:400],
                            "result": impl[k][:400]})

pool.shutdown(wait=True)
if os.environ.get("VERIF_C08_TIMING"):
    ck.say("# timing (s): " + " ".join("%s=%s" % kv for kv in sorted(TIMING.items(), key=lambda kv: -kv[1])))
if pr is not None and not pr["ok"]:
    ck.proof_broken(found)

ck.finish({
    "evaluations": stats.get("entries", 0) + special["virtual_evaluations"] + special["pad_evaluations"]
                   + special.get("narrow_virtual_evaluations", 0),
    "virtual_evaluations": special["virtual_evaluations"],
    "pad_evaluations": special["pad_evaluations"],
    "narrow_ranktype_evaluations": special.get("narrow_evaluations", 0),
    "distinct_nontrivial": stats.get("nontrivial_distinct", 0),
    "tuples": tuples_run,
    "rule": "one evaluation = one (comparator, tuple of sorted sequences, rank) on which both multisequence_partition and "
            "multisequence_selection of /repo (ASan+UBSan) and the extracted Coq model are run and compared. The templates are "
            "instantiated in 10 variants (RankType int/long/long long/unsigned/size_t; vector, deque and raw-pointer iterators; "
            "pair sequence by iterator, pointer, const_iterator; element int or key+payload struct compared by key; comparators: "
            "the plain functor in 2 variants, and in 8 variants comparators with heap-owned state that the destructor poisons - "
            "by-key adaptor, non-default-constructible wrapper, capturing lambda, std::function, plain function pointer): corpus and random cases run every variant on every rank (all "
            "must agree), enumerated cases rotate through the variants (template_variant_calls = calls per variant); the model answer "
            "is also compared with the extracted split_spec/select_spec and check_split. Families: the corpus (defect witnesses), "
            "complete enumerations `exh <cmp> <m> <minlen> <maxlen> <keys>` (every tuple of m sorted sequences, every rank 0..N) "
            "and random tuples (lengths around powers of two, 1-3 against 511..1025, up to 9 sequences; 1,2,3,5,1000 keys; "
            "comparators less / greater / less-on-x/4). Non-trivial = m >= 2, 0 < rank < N and some element left of the "
            "split is equivalent to some element right of it (the tie rule decides); distinct = first occurrence of the "
            "(comparator, tuple) in the shard, counted by the OCaml driver. Additionally (not counted in distinct_nontrivial): "
            "`pad x` = the padded length round_up_to_power_of_two(x+1)-1 through all six overloads against the model's rup2 "
            "around every power of two up to 2^62; `virt` = run-length described sequences of up to 2^33 elements served by an "
            "index-computing random-access iterator (difference_type long; RankType long / unsigned long / long long) — these "
            "cannot be materialised for the extracted model, so their answers are checked against the SPECIFICATION of "
            "partition_correct / selection_correct: by the harness through O(m^2 + m log n) probing of the predicate (sum, "
            "order, tie rule; #(<v) <= r < #(<=v), offset) and by the check script's own evaluation of the stable merge on the "
            "run-length encoding. Every rank is also run with rank and offset of multisequence_selection being the same object "
            "and (pointer variants) with the offsets written in place into the iterator pairs.",
    "samples": samples,
    "input_distribution": hist,
    "template_variant_calls": variant_calls,
    "exhaustive": False,
    "exhaustive_families": [l for _, ls in shards for l in ls if l.startswith("exh")],
    "level_note": "full: C08_partition_correct and C08_selection_correct (model of both algorithms = the specification, for every "
                  "strict weak order, every non-empty tuple of non-empty sorted sequences, every rank) are proved, with "
                  "spec_unique, split_spec_is_split, merged_order and both checkers sound+complete; the tie of the hand-written "
                  "model to /repo is the correspondence run",
}, assumptions=[
    "std::sort on the sample and both std::priority_queue's are modelled by insertion into a list kept sorted by the "
    "(value, sequence) order (all keys carry distinct sequence numbers, so the result is determined)",
    "std::lower_bound is modelled by its specification (length of the maximal prefix of elements < v)",
    "diff_type arithmetic is modelled on Z (no overflow); x/2 and x/(n+1) on the non-negative values the documented invariant guarantees",
    "the model returns None (never observed) when the documented invariant 0 <= a[i] <= seqlen[i], 0 <= b[i] <= l fails or pq.top() is taken on an empty queue",
    "element types int and struct{key,payload}; comparators std::less, std::greater, less-on-x/4, each also wrapped by-key / stateful; "
    "RankType int, long, long long, unsigned int, std::size_t; iterators vector, deque, raw pointer",
    "extraction: ExtrOcamlBasic only; nat/Z/list stay Coq inductives",
    "virtual sequences (> 2^32 elements) are judged by the specification predicate evaluated in the C++ harness and by the "
    "check script's run-length evaluation of the stable merge, not by the extracted model/checker (which need explicit lists)",
])
