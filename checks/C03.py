#!/usr/bin/env python3
"""C03 — sort_strings: sorted permutation + exact LCPs.
translator (sizeof / threshold constants of the memory heuristics) -> Coq theorems (Properties_C03.v) ->
correspondence: every public overload and every detail sorter of /repo (ASan+UBSan) against the OCaml extraction of
the model; the implementation's output is judged by the Coq-extracted checker of SortedPermLcp."""
import json, os, sys, threading
HERE = os.path.dirname(os.path.abspath(__file__))
sys.path.insert(0, os.path.join(HERE, "..", "lib")); sys.path.insert(0, os.path.join(HERE, "..", "translate"))
import verif, sizes_c03

ck = verif.Check("C03")
rng = ck.rng
SIZE_MAX = 2 ** 64 - 1
MODEL_SMALL_N = 800          # the model is always run up to this size; above only on radix-only paths (mem 0 / SIZE_MAX)

translator_error = None
try:
    ck.regen([sizes_c03.generate])
except RuntimeError as e:
    translator_error = str(e)
pr = ck.prove() if translator_error is None else None

# ---------------------------------------------------------------- harness build (four parts in parallel)
builds = {}
PARTS = (1, 2, 4, 8)          # harness compiled in four parts: reps 0,1 / 2,6 / 3,4 / 5
tsan_build = [None, ""]
def _build(part):
    builds[part] = ck.build_cpp("c03_harness_%d" % part, ["harness/C03/sort_harness.cpp"], extra=["-DC03_PART=%d" % part])
    if part == 2:        # the shortest of the four jobs also builds the ThreadSanitizer variant of the C-string part (~15 s)
        tsan_build[0], tsan_build[1] = ck.build_cpp("c03_harness_tsan", ["harness/C03/sort_harness.cpp"], extra=["-DC03_PART=1"],
                                                    flags=["-std=c++17", "-O1", "-g", "-fsanitize=thread"])
ths = [threading.Thread(target=_build, args=(p,)) for p in PARTS]
for t in ths: t.start()
# the Makefile's extraction rule does not know that the model depends on the regenerated constants: re-extract when they are newer
_gen = os.path.join(verif.COQ, "gen", "Sizes_C03_gen.v"); _ml = os.path.join(verif.VERIF, "ocaml", "gen", "C03_model.ml")
if os.path.exists(_gen) and os.path.exists(_ml) and os.path.getmtime(_ml) < os.path.getmtime(_gen):
    os.utime(os.path.join(verif.COQ, "Extract_C03.v"), None)
drv, dlog = ck.ocaml_driver("C03")
for t in ths: t.join()

import time
_T={}
def tick(k): _T[k]=round(time.time()-ck.t0,1)
tick('built')
# ---------------------------------------------------------------- generators
def hx(s): return s.hex() if s else "-"
def mkcase(algo, rep, ov, lcp, mem, depth, strs):
    return "%d %d %d %d %d %d %d %s" % (algo, rep, ov, lcp, mem, depth, len(strs), " ".join(hx(s) for s in strs))

ALPHABETS = [("1sym", b"a"), ("2sym", b"ab"), ("3sym", b"abc"), ("full", bytes(range(1, 256))),
             ("high", b"\x7f\x80\xff"), ("lowhigh", b"\x01\xff"), ("alnum", b"abcdefghijklmnopqrstuvwxyz0123456789")]

def rstr(alpha, maxlen):
    return bytes(alpha[rng.below(len(alpha))] for _ in range(rng.below(maxlen + 1)))

def gen_strings(n, shape, alpha):
    if shape == "random":
        ml = rng.choice([1, 2, 3, 5, 8, 12])
        return [rstr(alpha, ml) for _ in range(n)]
    if shape == "chain":                       # proper prefixes of one word, shuffled, repeated
        w = bytes(alpha[rng.below(len(alpha))] for _ in range(1 + rng.below(24)))
        return [w[:rng.below(len(w) + 1)] for _ in range(n)]
    if shape == "dups":                        # few distinct strings
        pool = [rstr(alpha, 6) for _ in range(1 + rng.below(4))]
        return [rng.choice(pool) for _ in range(n)]
    if shape == "sharedprefix":                # long common prefix, then short random tails
        p = bytes(alpha[rng.below(len(alpha))] for _ in range(rng.choice([3, 17, 64, 150, 400] if n < 64 else [3, 17, 64, 150] if n < 130 else [3, 17, 64] if n < 300 else [3, 9, 17])))
        return [p + rstr(alpha, 3) for _ in range(n)]
    if shape == "allequal":
        w = rstr(alpha, 5)
        return [w] * n
    if shape == "empties":
        return [b"" if rng.chance(1, 2) else rstr(alpha, 2) for _ in range(n)]
    raise ValueError(shape)

SHAPES = ["random", "random", "random", "chain", "dups", "sharedprefix", "allequal", "empties"]
MEMS = [0, 1, 64, 4096, 10 ** 5, 10 ** 7, SIZE_MAX]
REPNAMES = ["UChar", "CUChar", "StdString", "UPtr", "Suffix", "Char", "CChar"]
sizes = getattr(ck, "c03_sizes", {})
THR = getattr(ck, "c03_thresholds", None) or {"inssort": 32, "radix16": 65536, "mkqs": 32, "slack": [3, 3, 3, 3, 3]}   # as regenerated from /repo
T_INS, T_MK, T_R16 = THR["inssort"], THR["mkqs"], THR["radix16"]
S_CE0, S_CE2, S_CE3, S_CI2, S_CI3 = THR["slack"]

def threshold_mems(rep, lcp, n):
    """memory values at the case-split boundaries of the dispatch chain for this instantiation"""
    row = sizes.get((REPNAMES[rep], lcp))
    if not row: return []
    szt, sset, sstr, sit, ce0, ce2, ce3, ci2, ci3, u8, u16 = row
    base = 2 * szt + sset
    ts = [base + n * u16 + n * sstr + S_CE3 * ce3 + 1, base + n * u8 + n * sstr + S_CE2 * ce2 + 1, base + n * u16 + S_CI3 * ci3 + 1,
          base + n * u8 + S_CI2 * ci2 + 1, base + n * sstr + S_CE0 * ce0 + 1, 2 * szt + sset + 5 * sit + 1]
    out = []
    for t in ts: out += [t - 1, t, t + 1]
    # enough for the top-level step but only k more stack levels: forces the in-loop multikey_quicksort fall-back
    # (a seeded change was only visible for use+3*step+1 <= memory < use+4*step): sweep the whole band k = 1..9, its edges included
    for use, st in ((base + n * u8 + n * sstr, ce2), (base + n * u8, ci2), (base + n * sstr, ce0)):
        for k in range(1, 10):
            out += [use + k * st - 1, use + k * st, use + k * st + 1, use + k * st + rng.below(st), use + k * st + rng.below(st)]
    return out

def gen_small():
    algo = rng.choice([0, 0, 0, 1, 2, 3, 4, 5, 6, 6, 7, 7])
    rep = rng.choice([0, 0, 1, 2, 2, 3, 4, 5, 6])
    lcp = rng.below(2)
    r = rng.below(100)
    if r < 45: n = rng.below(41)
    elif r < 68: n = rng.choice(sorted(set([T_INS - 1, T_INS, T_INS + 1, T_MK - 1, T_MK, T_MK + 1])))    # the cut-offs to insertion sort
    elif r < 89: n = 34 + rng.below(90)
    elif r < 98: n = 130 + rng.below(170)
    else: n = 300 + rng.below(500)
    shape = rng.choice(SHAPES) if n < 300 else rng.choice(["sharedprefix", "sharedprefix", "random", "dups"])
    aname, alpha = rng.choice(ALPHABETS)
    if rep in (5, 6):            # CharStringSet / CCharStringSet compare `char` as signed: only 7-bit bytes (see report / known finding)
        aname, alpha = rng.choice([a for a in ALPHABETS if max(a[1]) < 0x80])
    if rng.chance(1, 12): mem = rng.choice([rng.next(), 2 ** 63 + rng.below(3) - 1, SIZE_MAX - 1 - rng.below(3000), rng.below(2 ** 32)])   # arbitrary limits
    elif rng.chance(1, 3): mem = rng.choice(MEMS)
    else:
        tm = threshold_mems(rep, lcp, n)
        mem = rng.choice(tm) if tm and rng.chance(3, 4) else rng.choice(MEMS)
    depth = 0
    if rep == 4:
        if shape in ("sharedprefix", "allequal", "dups") and n <= 150:   # periodic texts: suffixes with long common prefixes (model cost ~ n^3)
            per = rstr(alpha, 3) or b"a"
            text = (per * (n // len(per) + 1))[:n]
        else:
            text = bytes(alpha[rng.below(len(alpha))] for _ in range(n))
        sv = rng.choice([0, 0, 1, 2])      # Initialize / all suffixes in reverse order / the suffixes at even positions only
        return mkcase(algo, rep, sv, lcp, mem, 0, [text]), (algo, rep, lcp, mem, n if sv < 2 else (n + 1) // 2, shape, aname)
    strs = gen_strings(n, shape, alpha)
    if algo != 0 and rng.chance(1, 3):
        depth = (1 + rng.below(5)) if rng.chance(3, 4) else (6 + rng.below(40))
        p = bytes(alpha[rng.below(len(alpha))] for _ in range(depth))
        strs = [p + s for s in strs]
    if algo == 0:
        ov = rng.below(10) + (10 if mem == 0 and rng.chance(1, 2) else 0)      # >= 10: the memory argument is omitted
    else:
        ov = rng.choice([0, 0, 1, 2]) if algo >= 4 else rng.choice([0, 0, 1])   # view: plain / sub() with guards / shadow+flip+copy_back
        if rep == 5 and lcp and rng.chance(1, 2):                               # LcpType = uint8_t (only while every LCP fits) / uint16_t / uint64_t
            ov = rng.choice([3, 4, 5]) if max([len(s) for s in strs] + [0]) < 250 else rng.choice([4, 5])
    if rep in (0, 1, 5, 6) and rng.chance(1, 6): ov += 20 if algo == 0 else 10  # equal strings are one aliased buffer
    return mkcase(algo, rep, ov, lcp, mem, depth, strs), (algo, rep, lcp, mem, n, shape, aname)

def gen_big(n, kind, algo, rep, lcp, mem):
    if kind == "abc": strs = [rstr(b"abc", 12) for _ in range(n)]
    elif kind == "full": strs = [rstr(bytes(range(1, 256)), 4) for _ in range(n)]
    elif kind == "nested":                      # everything shares two bytes: second 16-bit step, zero-termination buckets
        strs = [b"ab" + rstr(b"ab", 6) for _ in range(n)]
    elif kind == "dups":
        pool = [rstr(b"ab\xff", 5) for _ in range(40)]
        strs = [rng.choice(pool) for _ in range(n)]
    elif kind in ("groups0", "groups2"):
        # aimed at the branch order of the 16-bit loops (empty / <=1 / zero-termination / < 32 / < RADIX / recurse): duplicate
        # groups of size 1, 2, 31, 32, 33 of strings that end 0, 1, 2, 3 bytes behind the depth of the 16-bit step; with
        # "groups2" everything shares two bytes, so the groups meet the SECOND step on the radix stack as well
        pre = b"ab" if kind == "groups2" else b""
        gch = b"qrstuvwxyz\xe9\x01"
        seen = set(); strs = []
        def group(s, g):
            if s not in seen: seen.add(s); strs.extend([s] * g)
        group(pre, rng.choice([1, 2, T_INS - 1, T_INS, T_INS + 1]))
        for L in (1, 2, 3):
            for g in (1, 2, T_INS - 1, T_INS, T_INS + 1):
                for _ in range(2):
                    group(pre + bytes(gch[rng.below(len(gch))] for _ in range(L)), g)
        one = bytes([gch[rng.below(len(gch))]])              # a short group and longer groups behind the same first byte
        group(pre + one, 2); group(pre + one + b"ab", T_INS - 1); group(pre + one + b"a", T_INS + 1)
        while len(strs) < n: strs.append(pre + bytes(b"abc"[rng.below(3)] for _ in range(4 + rng.below(4))))
        for i in range(len(strs) - 1, 0, -1):                 # shuffle
            j = rng.below(i + 1); strs[i], strs[j] = strs[j], strs[i]
    else: raise ValueError(kind)
    return mkcase(algo, rep, rng.below(10) if algo == 0 else 0, lcp, mem, 0, strs), (algo, rep, lcp, mem, n, "big-" + kind, kind)

cases, meta = [], []
corpus = [l.strip() for l in open(os.path.join(verif.VERIF, "corpus", "C03", "cases.txt")) if l.strip()]
if ck.replay:
    corpus = [json.load(open(ck.replay))["case"]]
for c in corpus:
    f = c.split()
    cases.append(c); meta.append((int(f[0]), int(f[1]), int(f[3]), int(f[4]), int(f[6]), "corpus", "corpus"))
# GenericCharStringSet<char> compares characters as (signed) char: with bytes >= 0x80 insertion sort / multikey quicksort
# order them as negative, the radix steps as unsigned.  Reported as a finding; the witness runs only once it is listed.
KF_KEY = "CharStringSet-signed-char-order"
kf_idx = set()
if not ck.replay and any(k == KF_KEY for k, _ in ck.known):
    kf_idx.add(len(cases)); cases.append("7 5 0 0 0 0 2 80 10"); meta.append((7, 5, 0, 0, 2, "corpus", "corpus"))
ncorpus = len(cases)
if not ck.replay:
    for _ in range(30000 if ck.thorough() else 3500):
        c, m = gen_small(); cases.append(c); meta.append(m)
    # bytes >= 0x80 through every public overload (memory passed and omitted) and every detail sorter / set / view
    HB = b"\x7f\x80\x81\xfe\xff\x01"
    for lcp in (0, 1):
        for ov in range(20):
            for rp in (0, 1, 2):
                n = rng.choice([20, 40, 70])
                strs = [rstr(HB, 4) for _ in range(n)]
                cases.append(mkcase(0, rp, ov, lcp, 0 if ov >= 10 else rng.choice(MEMS), 0, strs)); meta.append((0, rp, lcp, 0, n, "highbyte", "highbyte"))
        for algo in range(1, 8):
            for rp in (0, 1, 2, 3):
                for view in ((0, 1, 2) if algo >= 4 else (0, 1)):
                    n = rng.choice([20, 40, 70]); mem = rng.choice(MEMS)
                    strs = [b"\xff\x80" + rstr(HB, 3) for _ in range(n)]
                    cases.append(mkcase(algo, rp, view, lcp, mem, 2, strs)); meta.append((algo, rp, lcp, mem, n, "highbyte", "highbyte"))
            text = bytes(HB[rng.below(len(HB))] for _ in range(60))
            cases.append(mkcase(algo, 4, 0, lcp, 0, 0, [text])); meta.append((algo, 4, lcp, 0, 60, "highbyte", "highbyte"))
    # common prefixes longer than 2^16 (LCP values beyond 16 bits; radix stacks / recursion 66000 levels deep); judged by the
    # extracted checker only (char_at is O(depth) in the list model)
    LP = bytes(1 + (i * 7919 + i // 251) % 255 for i in range(66000))            # contains 0x01 and 0xff
    for (algo, rp, n, mem, dep) in ((0, 0, 34, 0, 0), (0, 2, 34, 10 ** 7, 0), (4, 1, 33, 0, 0), (6, 3, 40, 0, 66000), (7, 0, 3, 0, 65537), (2, 2, 2, 0, 0)):
        strs = [LP + rstr(b"\x01\xffab", 3) for _ in range(n)]
        cases.append(mkcase(algo, rp, 0, 1, mem, dep, strs)); meta.append((algo, rp, 1, mem, n, "longprefix", "full"))
    # (n, generator, algorithm, representation, lcp, memory); the model runs on the mem = 0 / SIZE_MAX ones
    big = [(65535, "abc", 0, 0, 1, 0), (65536, "nested", 0, 0, 1, 0), (65537, "full", 0, 2, 1, SIZE_MAX),
           (65536, "abc", 5, 1, 1, 0),
           (65536, "abc", 0, 0, 1, 10 ** 5), (65537, "full", 0, 0, 0, 10 ** 6), (65536, "nested", 0, 2, 1, 4096),
           (65536, "abc", 0, 0, 1, 14 * 10 ** 5), (65537, "dups", 3, 3, 0, 10 ** 7),
           # every entry point with the RADIX size threshold, duplicate groups around the 32 threshold at 0..3 bytes behind the step
           (66000, "groups0", 5, 0, 1, 0),              # radixsort_CI3 directly, C strings in exactly sized heap blocks
           (66000, "groups2", 5, 2, 1, SIZE_MAX),       # radixsort_CI3, std::string, groups also at the second stack level
           (66000, "groups2", 3, 1, 1, 0),              # radixsort_CE3 directly
           (70000, "groups0", 0, 2, 1, 2000000),        # front end: memory excludes CE3 and CE2, admits CI3 (std::string)
           (70000, "groups2", 0, 2, 1, 2400000),        # front end: memory excludes CE3, admits CE2 on >= 65536 strings
           (66000, "groups0", 0, 0, 1, 0)]              # front end, no limit: CE3
    if ck.thorough():
        big += [(200000, "abc", 0, 0, 1, 0), (230000, "full", 0, 0, 1, 2050000), (70000, "nested", 5, 3, 1, SIZE_MAX),
                (65536, "dups", 0, 2, 0, 10 ** 7), (131072, "nested", 3, 1, 1, 0), (65537, "abc", 2, 3, 1, 10 ** 6),
                (66000, "full", 5, 0, 1, 1700000), (65536, "abc", 1, 1, 0, 0), (65537, "dups", 3, 3, 0, 0),
                (65600, "full", 4, 0, 1, 0), (65536, "abc", 0, 0, 0, 0)]
    def adj(n):      # sizes are written for the shipped 16-bit switch-over of 65536 strings; follow the regenerated one
        return n + (T_R16 - 65536) if n in (65535, 65536, 65537) else n if n >= T_R16 + 400 else T_R16 + 464
    for (n, kind, algo, rep, lcp, mem) in big:
        c, m = gen_big(adj(n), kind, algo, rep, lcp, mem); cases.append(c); meta.append(m)

tick('generated')
# ---------------------------------------------------------------- run
found = False
stats = {"algo": {}, "rep": {}, "lcp": {}, "mem_class": {}, "size_class": {}, "shape": {}, "alphabet": {}}
def bump(d, k): d[k] = d.get(k, 0) + 1
def memclass(m): return "0" if m == 0 else "SIZE_MAX" if m == SIZE_MAX else "<=72" if m <= 72 else "<=4096" if m <= 4096 else "<=1e5" if m <= 10 ** 5 else "<=1e7" if m <= 10 ** 7 else ">1e7"
def sizeclass(n): return "0-1" if n <= 1 else "2-30" if n <= 30 else "31-33" if n <= 33 else "34-300" if n <= 300 else "65535-65537" if 65535 <= n <= 65537 else ">65537" if n > 65537 else "301-65534"
ALGON = ["sort_strings", "radixsort_CE0", "radixsort_CE2", "radixsort_CE3", "radixsort_CI2", "radixsort_CI3", "multikey_quicksort", "insertion_sort"]
for (algo, rep, lcp, mem, n, shape, aname) in meta:
    bump(stats["algo"], ALGON[algo]); bump(stats["rep"], REPNAMES[rep]); bump(stats["lcp"], "with_lcp" if lcp else "no_lcp")
    bump(stats["mem_class"], memclass(mem)); bump(stats["size_class"], sizeclass(n)); bump(stats["shape"], shape); bump(stats["alphabet"], aname)

impl = [None] * len(cases)
res = [None] * len(cases)
samples = []
agree = {"checked_ok": 0, "model_run": 0, "model_skipped_large": 0, "canon_agree": 0, "exact_object_order_agree": 0,
         "exact_object_order_differs": 0, "lcp0_untouched": 0, "lcp0_touched": 0}
ULIM = "ulimit -s unlimited 2>/dev/null || ulimit -s 4000000 2>/dev/null; exec \"$@\""

def run_harness(part, idxs, out):
    exe = builds[part][0]
    f = os.path.join(ck.scratch, "cases_%d.txt" % part)
    with open(f, "w") as fh:
        for i in idxs: fh.write(cases[i] + "\n")
    rc, o = verif.sh(["sh", "-c", ULIM, "sh", exe, f], timeout=3000, env=dict(os.environ, ASAN_OPTIONS="detect_leaks=1"))
    out[part] = (rc, o)

if translator_error is not None:
    pass
elif any(builds[p][0] is None for p in PARTS):
    log = [builds[p][1] for p in PARTS if builds[p][0] is None][0]
    ck.violation("correspondence harness does not compile against /repo", {"correspondence": "harness/C03/sort_harness.cpp", "log": log[-2500:]}, no_input=True)
elif drv is None:
    ck.violation("extracted model/driver does not build", {"correspondence": "ocaml/C03_driver.ml", "log": dlog[-2500:]}, no_input=True)
else:
    repof = [c.split(" ", 2)[1] for c in cases]
    parts = {1: [i for i, r in enumerate(repof) if r in ("0", "1")], 2: [i for i, r in enumerate(repof) if r in ("2", "6")],
             4: [i for i, r in enumerate(repof) if r in ("3", "4")], 8: [i for i, r in enumerate(repof) if r == "5"]}
    hout = {}
    ths = [threading.Thread(target=run_harness, args=(p, parts[p], hout)) for p in PARTS]
    for t in ths: t.start()
    for t in ths: t.join()
    tick('harness_done')
    crashed = []
    for p in PARTS:
        rc, o = hout[p]
        lines = [l for l in o.splitlines() if l.startswith("ids:") or l.startswith("APIFAIL:")]
        for k, i in enumerate(parts[p]):
            if k < len(lines): impl[i] = lines[k]
        if rc != 0:
            # sanitizer report / abort: the case after the last printed line; confirm by running it alone
            k = len(lines)
            cand = parts[p][k:k + 1] + parts[p][:0]
            bad = None
            for i in cand:
                one = os.path.join(ck.scratch, "one.txt"); open(one, "w").write(cases[i] + "\n")
                r, oo = verif.sh(["sh", "-c", ULIM, "sh", builds[p][0], one], timeout=600)
                if r != 0: bad = (i, oo); break
            crashed.append((p, bad, o))
    for (p, bad, o) in crashed:
        found = True
        if bad:
            i, oo = bad
            key = [l for l in oo.splitlines() if "ERROR: AddressSanitizer" in l or "runtime error" in l][:1]
            ck.violation("string sorter crashes under ASan/UBSan on a valid input (%s, %s, n=%d): %s" %
                         (ALGON[meta[i][0]], REPNAMES[meta[i][1]], meta[i][4], (key[0][:160] if key else "abort")),
                         {"case": cases[i] if len(cases[i]) < 200000 else cases[i][:200000], "log_tail": oo[-3000:],
                          "replay_cmd": "bin/check C03 --replay <this file>"})
        else:
            ck.violation("harness died (rc!=0) but no single case reproduces it", {"log_tail": o[-3000:]}, no_input=True)
    if not crashed:
        # driver over chunks, 4 jobs
        idxs = list(range(len(cases)))
        def weight(i):
            n, mem = meta[i][4], meta[i][3]
            if n <= MODEL_SMALL_N: return 1 + n * (1 + len(cases[i]) // (16 * (n + 1)))      # ~ n * average string length / 8
            return n * (40 if (mem == 0 or mem >= 1500000) and meta[i][0] not in (6, 7) else 4)
        chunks = [[], [], [], []]; load = [0, 0, 0, 0]
        for i in sorted(idxs, key=lambda i: -weight(i)):
            j = load.index(min(load)); chunks[j].append(i); load[j] += weight(i)
        dout = {}
        def run_driver(j):
            ch = sorted(chunks[j])
            cf = os.path.join(ck.scratch, "dcases_%d.txt" % j); of = os.path.join(ck.scratch, "dimpl_%d.txt" % j)
            with open(cf, "w") as a, open(of, "w") as b:
                for i in ch: a.write(cases[i] + "\n"); b.write((impl[i] or "MISSING") + "\n")
            rc, o = verif.sh(["sh", "-c", ULIM, "sh", drv, cf, of, str(MODEL_SMALL_N)], timeout=3000)
            dout[j] = (rc, ch, o)
        ths = [threading.Thread(target=run_driver, args=(j,)) for j in range(4)]
        for t in ths: t.start()
        for t in ths: t.join()
        tick('driver_done')
        for j in range(4):
            rc, ch, o = dout[j]
            lines = [l for l in o.splitlines() if l.startswith("chk=")]
            if rc != 0 or len(lines) != len(ch):
                ck.violation("extracted model driver failed (rc=%d, %d of %d lines)" % (rc, len(lines), len(ch)),
                             {"correspondence": "ocaml/C03_driver.ml", "log_tail": o[-2000:]}, no_input=True)
                continue
            for i, l in zip(ch, lines):
                res[i] = dict(kv.split("=") for kv in l.split())
        for i, r in enumerate(res):
            if r is None: continue
            algo, rep, lcp, mem, n, shape, aname = meta[i]
            ovf = int(cases[i].split(" ", 3)[2])
            desc = "%s on %s%s, n=%d, memory=%d, %s" % (ALGON[algo], REPNAMES[rep], " with LCP" if lcp else "", n, mem,
                                                        ("overload %d%s%s" % (ovf % 10, " (memory omitted)" if ovf % 20 >= 10 else "", " (aliased buffers)" if ovf >= 20 else ""))
                                                        if algo == 0 else "view/variant %d" % ovf)
            short = cases[i] if len(cases[i]) < 200000 else cases[i][:200000]
            if r["chk"] != "1":
                if i in kf_idx:
                    ck.violation("%s: bytes >= 0x80 are ordered as signed char" % desc, {"case": short, "impl_output": (impl[i] or "")[:400]}, key=KF_KEY)
                    continue
                found = True
                what = ("output is not a sorted permutation of the input objects" if r["sp"] != "1" else "lcp array is not the exact LCP of neighbours")
                if (impl[i] or "").startswith("APIFAIL"):
                    what = "string_ptr.hpp / string_set.hpp API check failed, or guard strings / lcp cells outside the sorted view were modified: " + impl[i][:200]
                if ck.violations < 4:
                    ck.violation("%s: %s" % (desc, what), {"case": short, "impl_output": (impl[i] or "")[:4000], "verdict": r,
                                                           "replay_cmd": "bin/check C03 --replay <this file>"})
                continue
            agree["checked_ok"] += 1
            if r["model"] == "skip": agree["model_skipped_large"] += 1; continue
            agree["model_run"] += 1
            if r["model"] == "err" or r["mspec"] != "1" or r["canon"] != "1":
                if ck.violations < 4:
                    ck.violation("model/implementation correspondence broken on %s (model=%s mspec=%s canon=%s) although the implementation's output satisfies the property"
                                 % (desc, r["model"], r["mspec"], r["canon"]),
                                 {"correspondence": "coq/C03/Model.v vs /repo", "case": short, "verdict": r}, no_input=True)
                continue
            agree["canon_agree"] += 1
            if r["exact"] == "1": agree["exact_object_order_agree"] += 1
            elif r["exact"] == "0":
                agree["exact_object_order_differs"] += 1
                ovx = int(cases[i].split(" ", 3)[2])
                if not (rep in (0, 1, 5, 6) and ovx >= (20 if algo == 0 else 10)):      # aliased buffers: ids of equal strings are interchangeable
                    agree["exact_object_order_differs_without_aliasing"] = agree.get("exact_object_order_differs_without_aliasing", 0) + 1
                    agree.setdefault("first_order_difference", "%s on %s n=%d mem=%d view/ov=%d" % (ALGON[algo], REPNAMES[rep], n, mem, ovx))
            if r["lcp0"] == "1": agree["lcp0_untouched"] += 1
            elif r["lcp0"] == "0": agree["lcp0_touched"] += 1
        for i in (0, ncorpus, ncorpus + 1, ncorpus + 2):
            if i < len(cases) and res[i] is not None and len(cases[i]) < 1500:
                samples.append({"case": cases[i], "implementation": impl[i], "verdict": res[i]})

# ---------------------------------------------------------------- concurrency stage
# Independent collections sorted at the same time by real threads (each with its own strings and lcp array): every call must
# still meet the property -- catches function-local static / global scratch state in the sorters.
#  * big: pairs of >= 65536-string collections of the same string-set type through every entry point that builds a 64Ki-entry
#    table (radixsort_CE3, radixsort_CI3, the front ends selecting them), 2 threads that meet again right before the sort call;
#    judged by the checker
#  * small: the first generated small cases of every harness part re-run 4 at a time; must equal the single-threaded lines
#  * the C-string part once more under ThreadSanitizer (big pairs of reps 0/1 + 60 small cases, 2 threads)
conc = {"big_cases": 0, "small_cases": 0, "threads": [2, 4], "tsan": "not run"}
if translator_error is None and all(builds[p][0] for p in PARTS) and drv is not None and not ck.replay and all(r is not None for r in res):
    cbig = []
    for (n_, kind, algo, rep_, mem) in ((66000, "abc", 3, 0, 0), (66000, "groups0", 5, 0, 0), (66000, "full", 0, 0, 0),
                                        (66000, "abc", 0, 2, 0), (70000, "groups0", 0, 2, 2000000)):
        pair = [gen_big(adj(n_), kind, algo, rep_, 1, mem) for _ in range(2)]
        for _round in range(1):
            for c, m in pair: cbig.append((c, m))
    conc["big_cases"] = len(cbig)
    def conc_run(part, lines, k, exe=None, env=None, ulim=True):
        f = os.path.join(ck.scratch, "conc_%d_%d.txt" % (part, k))
        with open(f, "w") as fh: fh.write("\n".join(lines) + "\n")
        cmd = (["sh", "-c", ULIM, "sh"] if ulim else []) + [exe or builds[part][0], f, str(k)]
        return verif.sh(cmd, timeout=3000, env=env or dict(os.environ, ASAN_OPTIONS="detect_leaks=1"))
    def part_of(c): r = c.split(" ", 2)[1]; return 1 if r in "01" else 2 if r in "26" else 4 if r in "34" else 8
    conc_fail = None
    # big pairs
    big_out = []
    for part in (1, 2):
        sel = [c for c, m in cbig if part_of(c) == part]
        if not sel: continue
        rc, o = conc_run(part, sel, 2)
        lines = [l for l in o.splitlines() if l.startswith("ids:") or l.startswith("APIFAIL:")]
        if rc != 0 or len(lines) != len(sel):
            key = [l for l in o.splitlines() if "ERROR: AddressSanitizer" in l or "runtime error" in l][:1]
            conc_fail = ("sorters crash when two threads sort independent collections of >= 65536 strings at the same time (%s): %s"
                         % (", ".join(sorted(set("%s on %s" % (ALGON[m[0]], REPNAMES[m[1]]) for c, m in cbig if part_of(c) == part))), key[0][:160] if key else "rc=%d" % rc),
                         {"cases_run_concurrently_in_pairs": [c[:300] + " ..." for c in sel[:4]], "threads": 2, "log_tail": o[-2500:]})
            break
        big_out += list(zip(sel, lines))
    if conc_fail is None and big_out:
        cf = os.path.join(ck.scratch, "conc_cases.txt"); of = os.path.join(ck.scratch, "conc_impl.txt")
        halves = [big_out[0::2], big_out[1::2]]; vout = {}
        def conc_check(j):
            a = cf + str(j); b = of + str(j)
            with open(a, "w") as x, open(b, "w") as y:
                for c, l in halves[j]: x.write(c + "\n"); y.write(l + "\n")
            vout[j] = verif.sh(["sh", "-c", ULIM, "sh", drv, a, b, "-1"], timeout=3000)
        ths = [threading.Thread(target=conc_check, args=(j,)) for j in (0, 1)]
        for t_ in ths: t_.start()
        for t_ in ths: t_.join()
        for j in (0, 1):
            vl = [l for l in vout[j][1].splitlines() if l.startswith("chk=")]
            for (c, l), v in zip(halves[j], vl):
                if not v.startswith("chk=1"):
                    f_ = c.split(" ", 7)
                    conc_fail = ("%s on %s, n=%s, memory=%s: result of a call is not a sorted permutation with exact LCPs when another thread sorts an independent collection at the same time"
                                 % (ALGON[int(f_[0])], REPNAMES[int(f_[1])], f_[6], f_[4]), {"case_prefix": c[:400] + " ...", "threads": 2, "verdict": v})
                    break
            if len(vl) != len(halves[j]) and conc_fail is None:
                conc_fail = ("checker driver failed on the concurrency stage", {"log_tail": vout[j][1][-1500:]})
    # small batch: 4 threads, must reproduce the single-threaded result lines
    if conc_fail is None:
        for part in PARTS:
            sel = [i for i in parts[part] if ncorpus <= i and len(cases[i]) < 20000][:90]
            if not sel: continue
            conc["small_cases"] += len(sel)
            rc, o = conc_run(part, [cases[i] for i in sel], 4)
            lines = [l for l in o.splitlines() if l.startswith("ids:") or l.startswith("APIFAIL:")]
            if rc != 0 or len(lines) != len(sel):
                conc_fail = ("sorters crash when four threads sort independent small collections at the same time (harness part %d)" % part, {"log_tail": o[-2500:], "threads": 4}); break
            bad = [i for i, l in zip(sel, lines) if l != impl[i]]
            if bad:
                i = bad[0]
                conc_fail = ("%s on %s: result differs from the single-threaded result when other threads sort independent collections at the same time"
                             % (ALGON[meta[i][0]], REPNAMES[meta[i][1]]), {"case": cases[i], "threads": 4, "single_threaded": impl[i][:1500]}); break
    # ThreadSanitizer build of the C-string part: a shared scratch table is a reported race even when results are right
    if conc_fail is None:
        texe, tlog = tsan_build
        if texe is None:
            conc["tsan"] = "build failed: " + tlog[-300:]
        else:
            sel = [c for c, m in cbig if part_of(c) == 1][:6] + [cases[i] for i in parts[1] if ncorpus <= i and len(cases[i]) < 20000][:60]
            rc, o = conc_run(1, sel, 2, exe=texe, env=dict(os.environ, TSAN_OPTIONS="halt_on_error=1 exitcode=66"), ulim=False)
            conc["tsan"] = "ran %d cases, rc=%d" % (len(sel), rc)
            if rc != 0:
                key = [l for l in o.splitlines() if "ThreadSanitizer" in l][:1]
                conc_fail = ("data race between two threads sorting independent collections: " + (key[0][:200] if key else "rc=%d" % rc), {"log_tail": o[-3000:], "threads": 2})
    if conc_fail is not None:
        found = True
        ck.violation("concurrency stage: " + conc_fail[0], dict(conc_fail[1], stage="independent collections sorted by concurrent threads",
                                                               replay_cmd="bin/check C03 (the stage is regenerated from VERIF_SEED)"))
tick('concurrency_done')

if translator_error is not None and not found:
    ck.violation("translator could not re-derive the sizeof/threshold constants from /repo: " + translator_error[:300],
                 {"theorem_or_correspondence": "translate/sizes_c03.py", "detail": translator_error[-2000:]}, no_input=True)
if pr is not None and not pr["ok"]:
    ck.proof_broken(found)

# ---------------------------------------------------------------- API surface actually exercised by this run
OVL = ["unsigned char**, size_t", "char**, size_t", "const unsigned char**, size_t", "const char**, size_t", "std::vector<char*>&",
       "std::vector<unsigned char*>&", "std::vector<const char*>&", "std::vector<const unsigned char*>&", "std::string*, size_t", "std::vector<std::string>&"]
SETS = ["UCharStringSet", "CUCharStringSet", "StdStringSet", "UPtrStdStringSet", "StringSuffixSet", "CharStringSet", "CCharStringSet"]
VIEWS = ["StringPtr/StringLcpPtr over the array", "strptr.sub(offset, n) of a larger array (+ size/active/fill_lcp/get_lcp/set_lcp/lcp)",
         "StringShadow(Lcp)Ptr: add_shadow + flip + copy_back (+ flipped/shadow/sub)"]
api = {}
for fn in ("sort_strings", "sort_strings_lcp"):
    for o in OVL:
        for m in ("memory passed", "memory omitted (default 0)"):
            api["tlx::%s(%s%s) [%s]" % (fn, o, ", std::uint32_t* lcp" if fn.endswith("lcp") else "", m)] = 0
for a in ALGON[1:]:
    for s in SETS:
        for lc in ("StringPtr", "StringLcpPtr<uint32_t>"):
            api["%s(%s<%s>)" % (a, lc, s)] = 0
for v in VIEWS: api["string_ptr.hpp view: " + v] = 0
EXTRA = ["StringLcpPtr<CharStringSet, std::uint8_t> (LcpType template parameter)", "StringLcpPtr<CharStringSet, std::uint16_t>",
         "StringLcpPtr<CharStringSet, std::uint64_t>", "C-string sets with aliased entries (one buffer several times in the array)",
         "StringSuffixSet::Initialize", "StringSuffixSet(text, begin, end): all suffixes in reverse order", "StringSuffixSet(text, begin, end): the suffixes at even positions"]
for x in EXTRA: api[x] = 0
for i, c in enumerate(cases):
    if res[i] is None: continue
    f = c.split(" ", 4); algo, rp, ov, lc = int(f[0]), int(f[1]), int(f[2]), int(f[3])
    cstr = rp in (0, 1, 5, 6)
    if cstr and ov >= (20 if algo == 0 else 10): api[EXTRA[3]] += 1
    if algo == 0 and rp <= 2:
        o = (8 + ov % 2) if rp == 2 else min(ov % 10, 7)
        api["tlx::%s(%s%s) [%s]" % ("sort_strings_lcp" if lc else "sort_strings", OVL[o], ", std::uint32_t* lcp" if lc else "",
                                    "memory omitted (default 0)" if ov % 20 >= 10 else "memory passed")] += 1
    else:
        view = 0 if (algo == 0 or rp == 4) else (ov % 10 if cstr else ov)
        api["%s(%s<%s>)" % (ALGON[3 if algo == 0 else algo], "StringLcpPtr<uint32_t>" if lc else "StringPtr", SETS[rp])] += 1
        if view >= 3: api[EXTRA[view - 3]] += 1
        else: api["string_ptr.hpp view: " + VIEWS[view]] += 1
    if rp == 4: api[EXTRA[4 + ov]] += 1
api_surface = {"entries_called": api, "entries_never_called_in_this_run": sorted(k for k, v in api.items() if v == 0),
               "not_driven_directly": ["StringSetBase::get_uint32/get_uint64/get_key/get_key_at (used by the parallel sample sort only)",
                                       "StringSetBase::check_order/print/get_string (debugging aids)",
                                       "radixsort_CE0..CE3 through StringShadow(Lcp)Ptr (they require StringPtr::add_shadow; not instantiable)",
                                       "CharStringSet/CCharStringSet with bytes >= 0x80 (signed char comparison: reported finding " + KF_KEY + ")"]}

# distinct non-trivial: distinct case text with at least two different strings in the collection
distinct = set()
for i, c in enumerate(cases):
    if res[i] is None: continue
    f = c.split()
    body = f[7:]
    nontrivial = (len(set(body)) >= 2) if f[1] != "4" else (len(body) == 1 and len(body[0]) >= 4)
    if nontrivial: distinct.add(hash(c))
ck.finish({
    "evaluations": sum(1 for r in res if r is not None),
    "distinct_nontrivial": len(distinct),
    "rule": "cases = corpus (defect witnesses, thresholds) + generated (algorithm x representation x with/without LCP x memory limit "
            "x size x shape x alphabet, all from VERIF_SEED; memory limits include 0, 1, 64, 4096, 1e5, 1e7, SIZE_MAX and the exact "
            "boundaries use+slack+1 (-1/0/+1) of every fall-back test for the chosen instantiation). Each case runs on the real code "
            "(ASan+UBSan); the Coq-extracted checker check_spl decides SortedPermLcp on the implementation's output (object identity "
            "by pointer / suffix index); the extracted model runs on the same input (always for n<=800, for larger n on the radix-only "
            "paths) and must agree on contents per position and on lcp[1..]. non-trivial = collection with at least two different "
            "strings (suffix sets: text of length >= 4); distinct = distinct case text.",
    "samples": samples,
    "input_distribution": stats,
    "agreement": agree,
    "concurrency_stage": conc,
    "api_surface": api_surface,
    "model_small_n": MODEL_SMALL_N,
    "driver_cpu_s_by_shape": {s: round(sum(float(r.get("t", 0)) for i, r in enumerate(res) if r and meta[i][5] == s), 1) for s in sorted(set(m[5] for m in meta))},
    "slowest_driver_cases": sorted(((float(r.get("t", 0)), "%s %s n=%d mem=%d %s model=%s" % (ALGON[meta[i][0]], REPNAMES[meta[i][1]], meta[i][4], meta[i][3], meta[i][5], r["model"])) for i, r in enumerate(res) if r), reverse=True)[:14],
    "phase_seconds": _T,
}, assumptions=[
    "object identity: pointer value (unsigned char*, const unsigned char*, unique_ptr<std::string>), suffix index (StringSuffixSet); std::string objects are identified by contents",
    "out-of-place radix steps: shadow array / flipped flag are modelled as functional stable distribution; the explicit radix stacks as recursion; data placement and heap use are covered by the correspondence run under ASan/UBSan only",
    "LCP insertion sort: ss[k] and lcp[k+1] are modelled as one cell of an array of pairs",
    "multikey quicksort partition: the array is modelled as pivot::EQL++LT++U++GT++EQR with the pointer updates translated to list operations",
    "order among equal strings is not part of the property: disagreement of object order between model and implementation is reported in coverage.agreement only",
    "extraction: ExtrOcamlBasic only; N/nat/list/PositiveMap stay Coq inductives",
])
