"""Shared by checks/C01.py and checks/C02.py: B+ tree (tlx/container/btree*.hpp).

One harness (harness/C01/btree_harness.cpp) and one extracted model (coq/C01/Model.v -> ocaml/C01_driver.ml)
serve both properties.  Each case is a history over three container variables of one configuration
(kind, comparator, leaf slots, inner slots, in-node search).  Per operation both sides print a token
    <result>/<allocs>.<frees>.<leaves>.<inner>.<size>
C01 judges the <result> parts (and the harness's own comparison with the std container, STDDIFF);
C02 judges the bookkeeping parts, verify(), the extracted inv_b on the dumped real tree, and the ledgers.
"""
import concurrent.futures
import json
import os
import sys

HERE = os.path.dirname(os.path.abspath(__file__))
sys.path.insert(0, os.path.join(HERE, "..", "lib"))
import verif  # noqa: E402

KINDS = ["set", "mset", "map", "mmap"]
DUP = {"set": False, "mset": True, "map": False, "mmap": True, "dms": True, "ims": True}
ISMAP = {"set": False, "mset": False, "map": True, "mmap": True, "dms": False, "ims": False}
# "dms" = btree_multiset<int> with the DEFAULT comparator and DEFAULT traits (64 leaf / 21 inner slots for int on
# LP64, binary search by the 256-byte threshold); the harness checks these numbers against the real type
DEFAULT_TRAITS_CFG = ("dms", 0, 64, 21, 1)
# argument-aliasing call modes (the key / value argument is a reference to an entry of the same container)
ALIAS_INSERTS = ["Ia", "Iha", "I2a", "Iba"]
ALIAS_ERASES = ["E1a", "EKa"]


# ------------------------------------------------------------------------------------------ configurations
def choose_configs(ck):
    """(kind, gt, leaf, inner, bin) tuples compiled into the harness for this run.
    quick: a fixed core (smallest capacities, asymmetric, the two large pairs) plus a seed-dependent rotation
    through {4..9}^2 (4 per run) and the all-defaults multiset; thorough: every pair of {4..9}^2 + (16,8),(8,32), kinds/search/order rotating so that
    every pair is seen with both searches and both orders."""
    rng = verif.SplitMix64(ck.seed * 7919 + 17)
    cfgs = []
    if ck.replay:
        return cfgs
    pairs = [(l, i) for l in range(4, 10) for i in range(4, 10)] + [(16, 8), (8, 32)]
    if ck.thorough():
        n = 0
        for (l, i) in pairs:
            for rep in range(2):
                kind = KINDS[(n + rep * 2 + (l + i)) % 4]
                cfgs.append((kind, (n + rep) % 2, l, i, (n // 2 + rep) % 2))
                n += 1
        # both searches x both orders for the smallest capacities, every kind
        for kind in KINDS:
            for gt in (0, 1):
                for b in (0, 1):
                    cfgs.append((kind, gt, 4, 4, b))
    else:
        core = [("set", 0, 4, 4, 1), ("mset", 1, 4, 4, 0), ("map", 1, 4, 5, 1), ("mmap", 0, 5, 4, 0),
                ("mmap", 1, 4, 4, 1), ("mset", 0, 16, 8, 1), ("map", 0, 8, 32, 0), ("set", 1, 5, 5, 0)]
        cfgs.extend(core)
        rest = [p for p in pairs if p not in ((4, 4), (4, 5), (5, 4), (5, 5), (16, 8), (8, 32))]
        for n in range(4):
            l, i = rest[rng.below(len(rest))]
            cfgs.append((KINDS[(n + rng.below(4)) % 4], rng.below(2), l, i, rng.below(2)))
    cfgs.append(DEFAULT_TRAITS_CFG)
    cfgs.extend(HUGE_CFGS if ck.thorough() else HUGE_CFGS[:1])
    out = []
    for c in cfgs:
        if c not in out:
            out.append(c)
    return out


def cfg_name(c):
    kind, gt, l, i, b = c
    return "%s:%d:%d:%d:%d" % (kind, l, i, b, gt)


def parse_cfg_name(s):
    kind, l, i, b, gt = s.split(":")
    return (kind, int(gt), int(l), int(i), int(b))


# ------------------------------------------------------------------------------------------ generator
class Shadow:
    """What the property fixes about a container: the sorted sequence (new equal keys go in front of the run,
    as tlx does; only used to aim the generator, never as an oracle)."""

    def __init__(self, kind, gt):
        self.kind, self.gt = kind, gt
        self.l = []

    def lt(self, a, b):
        return b < a if self.gt else a < b

    def lower(self, k):
        r = 0
        while r < len(self.l) and self.lt(self.l[r][0], k):
            r += 1
        return r

    def insert(self, k, d):
        r = self.lower(k)
        if not DUP[self.kind] and r < len(self.l) and self.l[r][0] == k:
            return
        self.l.insert(r, (k, d))

    def erase_one(self, k):
        r = self.lower(k)
        if r < len(self.l) and self.l[r][0] == k:
            del self.l[r]

    def erase_key(self, k):
        self.l = [x for x in self.l if x[0] != k]

    def erase_kd(self, k, d, j):
        cand = [r for r, x in enumerate(self.l) if x[0] == k and x[1] == d]
        if cand:
            del self.l[cand[j % len(cand)]]

    def keys(self):
        return [x[0] for x in self.l]


# HUGE node capacities (slot counters are unsigned short, so up to 65535 slots are representable): "every node
# capacity of at least four slots".  (kind, gt, leaf, inner, bin); the binary search is the interesting branch.
HUGE_CFGS = [("ims", 0, 65535, 8, 1), ("ims", 0, 60000, 4, 1), ("ims", 1, 4, 65535, 1)]
# the list-and-Peano model cannot run a 45000-children inner node in reasonable time: such cases are judged by the
# std container, verify() and the ledgers only
def no_model(cfg):
    return cfg[3] >= 60000


def gen_huge(rng, cfg):
    """bulk_load enough entries for one node to hold more than 2/3 of 65535 slots, then lookups / bounds at keys in
    the upper part of that node (where lo + hi of the in-node binary search exceeds 16 bits), a few inserts and
    erases there, full iteration."""
    kind, gt, leaf, inner, _b = cfg
    if inner >= 60000:
        n = rng.range(180000, 200000)       # > 43690 leaves of 4 -> one inner node with > 43690 keys
    elif leaf == 65535:
        n = rng.range(50000, 65535)         # one leaf
    else:
        n = rng.range(100000, 118000)       # two leaves of > 50000
    ks = [t // 2 for t in range(n)]
    hi = ks[-1]
    if gt:
        ks.reverse()
    ops = ["B,0,%d" % n + "".join(",%d,0" % k for k in ks)]
    def upper_key():
        return rng.range(hi * 2 // 3, hi + 1) if not gt else rng.range(0, hi // 3)
    for _ in range(36):
        k = upper_key() if rng.chance(5, 6) else rng.range(0, hi)
        ops.append("%s,0,%d" % (rng.choice(["U", "Uc", "R", "Rc", "L", "Lc", "F", "C", "X", "U", "Uc"]), k))
    for _ in range(6):
        k = upper_key()
        ops.append("I,0,%d,0" % k); ops.append("Uc,0,%d" % k)
        ops.append("%s,0,%d" % (rng.choice(["E1", "EK"]), upper_key())); ops.append("R,0,%d" % k)
    ops.append("T,0")
    return cfg_name(cfg) + " " + " ".join(ops)


def bulk_shape(n, leaf, inner):
    """cumulative item counts at the end of every node, level by level (index 0 = leaves), of the tree BTree::bulk_load
    builds from n distinct items: node i of a level takes remaining / (nodes - i) of what is left."""
    def spread(total, parts):
        out, left = [], total
        for i in range(parts):
            c = left // (parts - i); out.append(c); left -= c
        return out
    nl = (n + leaf - 1) // leaf
    ends, acc = [], 0
    for c in spread(n, nl):
        acc += c; ends.append(acc)
    levels = [ends]
    while len(levels[-1]) > 1:
        prev = levels[-1]
        npar = (len(prev) + inner) // (inner + 1)
        ends, idx = [], 0
        for c in spread(len(prev), npar):
            idx += c; ends.append(prev[idx - 1])
        levels.append(ends)
    return levels


def gen_deep_bulk(rng, cfg, levels):
    """bulk_load just above leaf*(inner+1)^(levels-1) entries, i.e. a tree with `levels` inner levels (3 and 4 for the
    small capacity pairs), then verify() (after every op anyway), lookups at the boundaries of the level-1 and level-2
    subtrees, a few inserts / erases there and a full iteration."""
    kind, gt, leaf, inner, _b = cfg
    dup, ismap = DUP[kind], ISMAP[kind]
    base = leaf * (inner + 1) ** (levels - 1)
    n = base + rng.choice([1, 2, rng.range(3, 30), rng.range(1, base // 3 + 1)])
    ks = [2 * t + (rng.below(2) if not dup else 0) - (t % 3 == 0 and dup) for t in range(n)]
    ks = [max(0, k) for k in ks]
    ks.sort()
    if gt:
        ks.reverse()
    items = [(k, (t + 1) if ismap else 0) for t, k in enumerate(ks)]
    ops = ["B,0,%d" % n + "".join(",%d,%d" % x for x in items), "T,0"]
    marks = [leaf * (inner + 1) ** e * m for e in (1, 2) for m in range(1, 6)]
    for m in marks:
        if m < n:
            k = ks[m - 1 if rng.chance(1, 2) else m]
            ops.append("%s,0,%d" % (rng.choice(["L", "Uc", "R", "F", "C", "Lc", "U"]), k))
    # erase BY ITERATOR the last entry of whole level-1 / level-2 / level-3 subtrees (bulk_load fills the leaves, so entry
    # m-1 is the largest key below that boundary): the last-key update then has to climb one, two or three inner levels
    # (erase_iter_descend forwards it upwards), and the lookups next to the erased key read the rewritten separators
    # the boundaries are those of the shape bulk_load really builds (it spreads items over the leaves and children over
    # the parents evenly, so they are NOT at multiples of leaf * (inner + 1)^e unless n happens to divide)
    shape = bulk_shape(n, leaf, inner)
    emarks, seen = [], set()
    for lev in reversed(shape[1:]):          # highest inner level below the root first
        for m in lev[:-1][:3]:
            if m not in seen:
                seen.add(m); emarks.append(m)
    done = 0
    for m in emarks:
        if 2 <= m < n and done < 8 and ks[m - 1] != ks[m - 2] and ks[m - 1] != ks[m]:
            k, dat = items[m - 1]
            ops.append("EI,0,%d,%d,0" % (k, dat))
            for q in (k, ks[m], ks[m - 2]):
                ops.append("%s,0,%d" % (rng.choice(["F", "L", "U", "C"]), q))
                ops.append("F,0,%d" % q)
            done += 1
    d = n + 1
    for _ in range(8):
        m = rng.choice([x for x in marks if x < n] or [n // 2])
        k = ks[min(n - 1, m + rng.range(-1, 1))]
        d += 1
        ops.append("I,0,%d,%d" % (k + rng.range(0, 1), d if ismap else 0))
        ops.append("%s,0,%d" % (rng.choice(["E1", "EK"]), ks[min(n - 1, m + rng.range(-2, 2))]))
        ops.append("%s,0,%d" % (rng.choice(["L", "U", "Rc"]), k))
    ops.append("T,0")
    return cfg_name(cfg) + " " + " ".join(ops)


ALIAS_PROBE = r"""
#include <tlx/container/btree_multimap.hpp>
#include <tlx/container/btree_multiset.hpp>
struct T4 { static const bool self_verify = false, debug = false; static const int leaf_slots = 4, inner_slots = 4;
            static const size_t binsearch_threshold = 256; };
int main() {
    int rc = 0;
    { tlx::btree_multiset<int, std::less<int>, T4> s; int a[] = {1, 1, 2, 3}; for (int x : a) s.insert(x);
      auto it = s.begin(); ++it; if (s.erase(*it) != 2 || s.size() != 2) rc |= 1; }
    { tlx::btree_multimap<int, int, std::less<int>, T4> m; m.insert(std::make_pair(5, 100)); m.insert(std::make_pair(5, 200));
      auto it = m.begin(); ++it; int d = it->second; m.insert(*it); int n = 0; for (auto& p : m) if (p.second == d) ++n; if (n != 2) rc |= 2; }
    return rc;
}
"""


def probe_alias_defects(ck):
    """Two argument-aliasing call modes misbehave on tlx as shipped (docs/audit/C01.md F4, F5; proposed patches
    fixes/C01/04, 05): erase(key) of the multi containers with the key referring into the tree, and insert(value)
    with the value referring to a later entry of the same run.  The two witnesses are run against the working tree
    on every check run; a mode is generated as soon as its witness passes (and is reported as usual if it breaks
    again afterwards)."""
    src = os.path.join(ck.scratch, "alias_probe.cpp")
    exe = os.path.join(ck.scratch, "alias_probe")
    with open(src, "w") as f:
        f.write(ALIAS_PROBE)
    rc, _ = verif.sh([verif.CXX, "-std=c++17", "-O0", "-I", verif.REPO, src, "-o", exe], timeout=300)
    bits = 3
    if rc == 0:
        rc2, _ = verif.sh([exe], timeout=60)
        bits = rc2 if rc2 in (0, 1, 2, 3) else 3
    open_modes = set()
    if bits & 1:
        open_modes.add("erase-key-alias-multi")
    if bits & 2:
        open_modes.add("insert-value-alias-multimap")
    ck.coverage["aliasing_modes_excluded_because_witness_still_fails"] = sorted(open_modes)
    return open_modes


def gen_case(rng, cfg, nops, open_modes=frozenset()):
    kind, gt, leaf, inner, _b = cfg
    dup, ismap = DUP[kind], ISMAP[kind]
    sh = [Shadow(kind, gt) for _ in range(3)]
    ops = []
    dctr = [0]
    mode = rng.below(7)
    univ = rng.choice([6, 12, 16, 40, 256]) if mode != 3 else rng.choice([2, 3, 5])
    if not dup and univ < 12:
        univ = rng.choice([16, 40, 256])

    def newd():
        dctr[0] += 1
        return dctr[0] if ismap else 0

    def key_near(i):
        ks = sh[i].keys()
        if ks and rng.chance(3, 4):
            k = rng.choice(ks) + rng.range(-1, 1)
            return max(0, k)
        return rng.below(univ)

    def ins(i, k=None):
        # every insert overload of the facades: insert(v), insert(hint, v), insert2(k, d), insert2(hint, k, d),
        # operator[] (unique maps; elsewhere the harness falls back to insert(v)), insert(first, last)
        k = rng.below(univ) if k is None else k
        r = rng.below(100)
        if r < 8:
            items = [(max(0, k + rng.range(-2, 2)) if rng.chance(1, 2) else rng.below(univ), newd()) for _ in range(rng.range(1, 6))]
            ops.append("IR,%d,%d" % (i, len(items)) + "".join(",%d,%d" % x for x in items))
            for kk, dd in items:
                sh[i].insert(kk, dd)
            return
        if r >= 8 and sh[i].l and rng.chance(1, 5):
            # ARGUMENT ALIASING: the value handed to insert / insert(hint) / insert2 / operator[] is a reference to
            # an entry stored in the same container (multi containers: duplicates it, unique ones: not inserted)
            ak, ad = rng.choice(sh[i].l)
            nm = rng.choice(ALIAS_INSERTS)
            if not (kind == "mmap" and "insert-value-alias-multimap" in open_modes):
                ops.append("%s,%d,%d,%d,%d" % (nm, i, ak, ad, rng.below(8)))
                sh[i].insert(ak, ad)
                return
        d = newd()
        if r < 55:
            ops.append("I,%d,%d,%d" % (i, k, d))
        elif r < 72:
            ops.append("Ih,%d,%d,%d,%d" % (i, k, d, rng.below(3)))
        elif r < 82:
            ops.append("I2,%d,%d,%d" % (i, k, d))
        elif r < 88:
            ops.append("Ih2,%d,%d,%d,%d" % (i, k, d, rng.below(3)))
        else:
            ops.append("Ib,%d,%d,%d" % (i, k, d))
        sh[i].insert(k, d)

    def query(i, k=None):
        # lookups through the mutable object and (suffix c) through a const reference
        k = key_near(i) if k is None else k
        if sh[i].l and rng.chance(1, 6):     # the key argument is a reference into the container
            ak, ad = rng.choice(sh[i].l)
            ops.append("%s,%d,%d,%d,%d" % (rng.choice(["Fa", "Xa", "Ca", "La", "Ua", "Ra"]), i, ak, ad, rng.below(8)))
            return
        ops.append("%s,%d,%d" % (rng.choice(["F", "X", "C", "L", "U", "R", "Fc", "Lc", "Uc", "Rc", "Uc", "Rc"]), i, k))

    def erase_iter(i):
        if not sh[i].l:
            return
        k, d = rng.choice(sh[i].l)
        j = rng.below(8)
        ops.append("EI,%d,%d,%d,%d" % (i, k, d, j)); sh[i].erase_kd(k, d, j)

    def erase(i, k=None):
        k = key_near(i) if k is None else k
        r = rng.below(10)
        if sh[i].l and rng.chance(1, 5):     # erase(key) / erase_one(key) with the key aliasing a stored entry
            ak, ad = rng.choice(sh[i].l) if not sh[i].keys().count(k) else rng.choice([x for x in sh[i].l if x[0] == k])
            nm = rng.choice(ALIAS_ERASES)
            if dup and "erase-key-alias-multi" in open_modes:
                nm = "E1a"
            ops.append("%s,%d,%d,%d,%d" % (nm, i, ak, ad, rng.below(8)))
            if nm == "E1a":
                sh[i].erase_one(ak)
            else:
                sh[i].erase_key(ak)
            return
        if r < 4:
            ops.append("E1,%d,%d" % (i, k)); sh[i].erase_one(k)
        elif r < 6:
            ops.append("EK,%d,%d" % (i, k)); sh[i].erase_key(k)
        else:
            erase_iter(i)

    def recreate(i):
        # destroy variable i, re-create it empty with a comparator state (run-time direction) and an arena
        d = rng.below(2) if kind != "dms" else 0      # std::less has no state
        ops.append("NC,%d,%d,%d" % (i, d, rng.below(3))); sh[i].l = []; sh[i].gt = d

    def bulk(i, n=None):
        if sh[i].l:
            ops.append("CL,%d" % i); sh[i].l = []
        cap = 4 * leaf * inner if leaf * inner <= 90 else 2 * leaf * inner
        if n is None:
            r = rng.below(10)
            if r < 4:        # exact capacity multiples and their neighbours
                n = rng.choice([leaf, 2 * leaf, leaf * (inner + 1), leaf * (inner + 2), leaf * (inner + 1) * 2, 3 * leaf]) + rng.range(-1, 1)
            elif r < 6:
                n = rng.below(2 * leaf + 2)
            else:
                n = rng.below(cap + 1)
        n = max(0, min(n, cap))
        # sorted ranges WITH equal-key runs for all four containers (the unique ones keep the first entry of a
        # run): few-keys ranges, distinct keys with injected runs (up to leaf + 1 long, so that a run crosses a
        # leaf boundary), and a run at the very end of the range
        if dup or rng.chance(1, 3):
            ks = sorted(rng.below(max(1, n // rng.choice([1, 2, leaf, 3 * leaf]) + 1)) for _ in range(n))
        else:
            ks = []
            for k in sorted(set(rng.below(3 * n + 3) for _ in range(n))):
                ks.extend([k] * (1 + (rng.range(1, leaf + 1) if rng.chance(1, 5) else 0)))
            ks = ks[:cap]
        if len(ks) >= 2 and rng.chance(1, 3):
            for t in range(rng.range(2, min(len(ks), leaf + 2))):
                ks[len(ks) - 1 - t] = ks[-1]
            ks.sort()
        if sh[i].gt:
            ks.reverse()
        items = [(k, newd()) for k in ks]
        ops.append("B,%d,%d" % (i, len(items)) + "".join(",%d,%d" % x for x in items))
        if dup:
            sh[i].l = list(items)
        else:
            sh[i].l = [x for t, x in enumerate(items) if t == 0 or items[t - 1][0] != x[0]]

    def whole(i):
        j = rng.below(3)
        r = rng.below(20)
        if r < 6:
            ops.append("AS,%d,%d" % (i, j)); sh[i].l = list(sh[j].l); sh[i].gt = sh[j].gt
        elif r < 9:
            if i != j:
                ops.append("CC,%d,%d" % (i, j)); sh[i].l = list(sh[j].l); sh[i].gt = sh[j].gt
        elif r < 13:
            # facade swap member, std::swap on the facades, BTree::swap on the underlying trees
            ops.append("%s,%d,%d" % (rng.choice(["SW", "SWs", "SWt"]), i, j))
            sh[i].l, sh[j].l = sh[j].l, sh[i].l; sh[i].gt, sh[j].gt = sh[j].gt, sh[i].gt
        elif r < 16:
            ops.append("CMP,%d,%d" % (i, j))
        elif r < 17:
            ops.append("CL,%d" % i); sh[i].l = []
        elif r < 18:
            recreate(i)
        else:   # destroy + one of the four range constructors (default comparator state; arena (v / 4) % 3)
            items = [(rng.below(univ), newd()) for _ in range(rng.below(2 * leaf + 3))]
            ops.append("CR,%d,%d,%d" % (i, rng.below(12), len(items)) + "".join(",%d,%d" % x for x in items))
            sh[i].l = []; sh[i].gt = gt
            for kk, dd in items:
                sh[i].insert(kk, dd)

    # half of the histories start with variables of different comparator states
    if rng.chance(1, 2):
        recreate(rng.below(3))
        if rng.chance(1, 3):
            recreate(rng.below(3))

    if mode == 4 or (mode == 5 and rng.chance(1, 2)):
        bulk(0)
        ops.append("T,0")
    if mode == 1:   # grow then shrink in a different order
        n = rng.range(leaf, min(nops, 3 * leaf * (inner + 1) // 2 + 2))
        for _ in range(n):
            ins(0)
        ops.append("T,0")
        ks = sh[0].keys()
        order = rng.below(3)
        if order == 1:
            ks.reverse()
        elif order == 2:
            ks = [ks[(i * 7919 + 3) % len(ks)] for i in range(len(ks))] if ks else ks
        for k in ks:
            if len(ops) >= 2 * nops + n:
                break
            erase(0, k)
            if rng.chance(1, 3):
                query(0, k)
    elif mode == 2:  # churn at one separator, bound queries right after the erase
        for _ in range(rng.range(leaf, 3 * leaf + inner)):
            ins(0)
        ks = sh[0].keys()
        piv = ks[len(ks) // 2] if ks else 3
        while len(ops) < nops:
            k = max(0, piv + rng.range(-2, 2))
            if rng.chance(1, 2):
                ins(0, k)
            else:
                erase(0, k); query(0, k); query(0, max(0, k - 1 + 2 * rng.below(2)))
    elif mode == 3:  # long duplicate runs spanning several leaves, erase by iterator inside them
        n = rng.range(2 * leaf, 3 * leaf * rng.range(1, 3) + inner)
        for _ in range(min(n, nops)):
            ins(0)
        ops.append("T,0")
        while len(ops) < nops + n // 2:
            r = rng.below(10)
            if r < 5:
                erase_iter(0)
            elif r < 6:
                erase(0)
            elif r < 8:
                ins(0)
            else:
                query(0)
    while len(ops) < nops:
        i = rng.below(3) if mode in (0, 5, 6) else (0 if rng.chance(4, 5) else rng.below(3))
        r = rng.below(100)
        grow = 45 if len(sh[i].l) < 3 * leaf else 30
        if r < grow:
            ins(i, key_near(i) if rng.chance(1, 3) else None)
        elif r < 65:
            erase(i)
        elif r < 82:
            query(i)
        elif r < 86:
            ops.append("T,%d" % i)
        elif r < 88 and mode in (4, 5, 6):
            bulk(i)
        else:
            if mode in (5, 6) or rng.chance(1, 3):
                whole(i)
            else:
                query(i)
    for i in range(3):
        ops.append("T,%d" % i)
    ops.append("CMP,0,1")
    return cfg_name(cfg) + " " + " ".join(ops)


# ------------------------------------------------------------------------------------------ build
def build_harness(ck, cfgs, jobs=4):
    """Compile harness/C01/btree_harness.cpp once per group of configurations (<= jobs parallel g++), link."""
    groups = [cfgs[i::jobs] for i in range(jobs)]
    groups = [g for g in groups if g]
    flags = verif.CXXFLAGS_SAN + ["-fno-var-tracking-assignments", "-c"]
    src = "harness/C01/btree_harness.cpp"
    # const_iterator(const const_reverse_iterator&) is declared but ill-formed when used as long as
    # const_reverse_iterator does not befriend const_iterator (docs/audit/C01.md, F3): probe the working tree,
    # and exercise the conversion at every position as soon as it compiles
    probe = os.path.join(ck.scratch, "probe_cri.cpp")
    with open(probe, "w") as f:
        f.write("#include <tlx/container/btree_set.hpp>\n"
                "void f(tlx::btree_set<int>::const_reverse_iterator r) { tlx::btree_set<int>::const_iterator c(r); (void)c; }\n")
    rc, _ = verif.sh([verif.CXX, "-std=c++17", "-fsyntax-only", "-I", verif.REPO, probe], timeout=120)
    cri = ["-DTLX_HAS_CRI_TO_CI"] if rc == 0 else []
    ck.coverage["const_reverse_iterator_to_const_iterator_compiles"] = (rc == 0)

    def one(idx):
        inc = os.path.join(ck.scratch, "cfg_%d.inc" % idx)
        with open(inc, "w") as f:
            f.write("".join("CFG(%s, %d, %d, %d, %d)\n" % c for c in groups[idx]))
        extra = ['-DCONFIGS_INC="cfg_%d.inc"' % idx, "-I", ck.scratch] + (["-DHARNESS_MAIN"] if idx == 0 else []) + cri
        return ck.build_cpp("tu_%d.o" % idx, [src], flags=flags, extra=extra)

    with concurrent.futures.ThreadPoolExecutor(max_workers=jobs) as ex:
        res = list(ex.map(one, range(len(groups))))
    for obj, log in res:
        if obj is None:
            return None, log
    return ck.build_cpp("btree_harness", [o for o, _ in res], flags=verif.CXXFLAGS_SAN, repo_sources=["tlx/die/core.cpp"])


# ------------------------------------------------------------------------------------------ comparison
def split_line(line):
    """-> (tokens, final, stddiff, notes, trailer)"""
    trailer = ""
    if " ## " in line:
        line, trailer = line.split(" ## ", 1)
    parts = line.split()
    toks, final, stddiff, notes = [], "", "", []
    for p in parts:
        if p.startswith("final="):
            final = p
        elif p.startswith("STDDIFF@"):
            stddiff = p
        elif p.startswith(("MODEL-BAD@", "INVALID-HISTORY@", "NOCONFIG", "DRIVER-ERROR")):
            notes.append(p)
        elif final:
            notes.append(p)           # free text after final= (ledger message words)
        else:
            toks.append(p)
    return toks, final, stddiff, notes, trailer


def res_part(tok):
    return tok.split("/", 1)[0]


def book_part(tok):
    return tok.split("/", 1)[1] if "/" in tok else ""


def truncate_case(case, nops):
    parts = case.split()
    return " ".join(parts[:1 + nops])


def main(pid):
    ck = verif.Check(pid)
    rng = ck.rng
    pr = ck.prove()
    focus = "results" if pid == "C01" else "bookkeeping"

    corpus_path = os.path.join(verif.VERIF, "corpus", "C01", "cases.txt")
    corpus = [l.strip() for l in open(corpus_path) if l.strip() and not l.startswith("#")] if os.path.exists(corpus_path) else []
    cfgs = choose_configs(ck)
    open_modes = probe_alias_defects(ck)
    if ck.replay:
        rp = json.load(open(ck.replay))
        cases = [rp["case"]] if rp.get("case") else []
        corpus = []
    else:
        cases = list(corpus)
    for c in cases:
        t = parse_cfg_name(c.split()[0])
        if t not in cfgs:
            cfgs.append(t)
    ncorpus = len(cases)
    if not ck.replay:
        N = 24000 if ck.thorough() else 900
        normal = [c for c in cfgs if c not in HUGE_CFGS]
        for k in range(N):
            cfg = normal[k % len(normal)] if k < 2 * len(normal) else rng.choice(normal)
            big = cfg[2] * cfg[3] > 90
            nops = rng.range(20, 70) if not big else rng.range(60, 160)
            cases.append(gen_case(rng, cfg, nops, open_modes))
        # bulk loads that need 3 and 4 inner levels (the level loop of bulk_load beyond level 1) for the small pairs
        small = [c for c in normal if c[2] * (c[3] + 1) ** 2 <= 200 and c[0] != "dms"]
        for t in range(24 if ck.thorough() else 6):
            if small:
                cfg = small[t % len(small)]
                cases.append(gen_deep_bulk(rng, cfg, 3 if (t // len(small)) % 2 == 0 or cfg[2] * (cfg[3] + 1) ** 3 > 800 else 4))
        for cfg in [c for c in normal if c[2:4] == (8, 8)][:1]:
            cases.append(gen_deep_bulk(rng, cfg, 3))
        # four inner levels in the quick tier too (smallest capacity pairs; the loop above reaches them only in the thorough tier)
        for cfg in [c for c in small if c[2] * (c[3] + 1) ** 3 <= 800][:2]:
            cases.append(gen_deep_bulk(rng, cfg, 4))
        for cfg in cfgs:
            if cfg in HUGE_CFGS:
                for _ in range(2 if ck.thorough() else 1):
                    cases.append(gen_huge(rng, cfg))
    casefile = os.path.join(ck.scratch, "cases.txt")
    with open(casefile, "w") as f:
        f.write("\n".join(cases) + "\n")
    # the model driver gets the same file, except that histories it cannot run (no_model) are reduced to their name
    modelfile = os.path.join(ck.scratch, "cases_model.txt")
    skip_model = [no_model(parse_cfg_name(c.split(" ", 1)[0])) for c in cases]
    with open(modelfile, "w") as f:
        f.write("\n".join((c.split(" ", 1)[0] if sk else c) for c, sk in zip(cases, skip_model)) + "\n")
    dumpfile = os.path.join(ck.scratch, "dumps.txt")

    found = False
    stats = {}
    ophist = {}
    depth_hist = {"root leaf only": 0, "height 1 (1 inner node)": 0, "height >= 2 (>= 3 inner nodes)": 0}
    distinct = set()
    samples = []
    struct_agree = struct_total = 0
    evaluations = 0
    exe = drv = None
    if cases:
        with concurrent.futures.ThreadPoolExecutor(max_workers=2) as ex:
            fh = ex.submit(build_harness, ck, cfgs)
            fd = ex.submit(ck.ocaml_driver, "C01")
            exe, log = fh.result()
            drv, dlog = fd.result()
    if not cases:
        pass
    elif exe is None:
        ck.violation("correspondence harness does not compile against /repo",
                     {"correspondence": "harness/C01/btree_harness.cpp", "log": log[-2500:]}, no_input=True)
    elif drv is None:
        ck.violation("extracted model/driver does not build",
                     {"correspondence": "ocaml/C01_driver.ml", "log": dlog[-2500:]}, no_input=True)
    else:
        env = dict(os.environ, ASAN_OPTIONS="detect_leaks=1", UBSAN_OPTIONS="print_stacktrace=1")
        rc1, out1 = verif.sh([exe, casefile, dumpfile], timeout=3000, env=env)
        impl = out1.splitlines()
        def report_crash(start):
            """bisect a sanitizer abort / crash / leak report to one case, shrink it to the shortest failing prefix"""
            bad = None
            one = os.path.join(ck.scratch, "one.txt")
            for idx in range(start, len(cases)):
                with open(one, "w") as f:
                    f.write(cases[idx] + "\n")
                r, o = verif.sh([exe, one], timeout=120, env=env)
                if r != 0:
                    bad = (cases[idx], o)
                    break
            case = bad[0] if bad else None
            if case and "WATCHDOG" in bad[1]:
                pass        # non-termination: every probe of a shrink would cost the 30 s watchdog; keep the case whole
            elif case:
                lo, hi = 1, len(case.split()) - 1
                while lo < hi:
                    mid = (lo + hi) // 2
                    with open(one, "w") as f:
                        f.write(truncate_case(case, mid) + "\n")
                    r, o = verif.sh([exe, one], timeout=120, env=env)
                    if r != 0:
                        hi = mid
                    else:
                        lo = mid + 1
                case = truncate_case(case, lo)
            ck.violation("real B+ tree crashes, is flagged by ASan/UBSan/LeakSanitizer, or does not terminate (30 s watchdog) on a valid history",
                         {"case": case, "log_tail": (bad[1] if bad else out1)[-3000:]}, no_input=(case is None))

        complete = len([l for l in impl if " final=" in l]) >= len(cases)
        if rc1 != 0 and not complete:
            found = True
            report_crash(max(0, len([l for l in impl if " final=" in l]) - 1))
        else:
            rc2, out2 = verif.sh([drv, modelfile, dumpfile], timeout=3000)
            model = out2.splitlines()
            for idx, c in enumerate(cases):
                evaluations += 1
                a = impl[idx] if idx < len(impl) else "<missing>"
                b = model[idx] if idx < len(model) else "<missing>"
                if skip_model[idx] and a != "<missing>":
                    b = a.split(" STDDIFF@")[0]       # judged by the std container, verify() and the ledgers only
                cfgname = c.split()[0]
                stats[cfgname] = stats.get(cfgname, 0) + 1
                ta, fa, stda, na, _ = split_line(a)
                tb, fb, _stdb, nb, trailer = split_line(b)
                if any(x.startswith(("INVALID-HISTORY", "DRIVER-ERROR")) for x in nb) or "<missing>" in (a, b) or any(x.startswith("NOCONFIG") for x in na + ta):
                    if idx < ncorpus and any(x.startswith("INVALID-HISTORY") for x in nb):
                        continue    # hand-written corpus lines may probe preconditions
                    ck.violation("generator/driver self-check failed: %s | %s" % (" ".join(nb)[:80], a[:60]),
                                 {"case": c, "model": b[-300:], "impl": a[-300:]}, no_input=True)
                    break
                # non-trivial = the history made the real tree split or merge/collapse at least once
                # (a node allocation after the first, or a node free, outside clear/assign)
                nontriv = False
                maxinner = 0
                for tok, op in zip(ta, c.split()[1:]):
                    nm = op.split(",")[0]
                    ophist[nm] = ophist.get(nm, 0) + 1
                    nm = {"Ih": "I", "I2": "I", "Ih2": "I", "Ib": "I", "IR": "I", "Ia": "I", "Iha": "I", "I2a": "I", "Iba": "I",
                          "E1a": "E1", "EKa": "EK"}.get(nm, nm)
                    bk = book_part(tok).split(".")
                    if len(bk) == 5:
                        maxinner = max(maxinner, int(bk[3]))
                    if len(bk) == 5 and nm in ("I", "E1", "EK", "EI") and (int(bk[3]) > 0 or int(bk[1]) > 0):
                        nontriv = True
                if nontriv:
                    distinct.add(c)
                depth_hist["root leaf only" if maxinner == 0 else ("height 1 (1 inner node)" if maxinner < 3 else "height >= 2 (>= 3 inner nodes)")] += 1
                inv = ""
                for w in trailer.split():
                    if w.startswith("inv="):
                        inv = w[4:]
                    if w.startswith("struct="):
                        x, y = w[7:].split("/")
                        struct_agree += int(x); struct_total += int(y)
                first = None
                what = None
                violates = False      # does the implementation's own observable behaviour violate the property?
                opnames = c.split()[1:]
                for k in range(max(len(ta), len(tb))):
                    x = ta[k] if k < len(ta) else "<none>"
                    y = tb[k] if k < len(tb) else "<none>"
                    if focus == "results":
                        if "!" in res_part(x):
                            first, what, violates = k, "tlx container returned an invalid result (%s)" % res_part(x), True
                            break
                        if res_part(x) != res_part(y):
                            first, what = k, "result differs from the proven model: impl=%s model=%s" % (res_part(x), res_part(y))
                            break
                    else:
                        if "VERIFYFAIL" in x:
                            first, what, violates = k, "BTree::verify() fails after the operation (%s)" % x[:120], True
                            break
                        if "LEDGERFAIL" in x:
                            first, what, violates = k, "allocator / element-lifetime ledger error at this operation (%s)" % x[:120], True
                            break
                        if book_part(x) != book_part(y):
                            first, what = k, "allocation/stat bookkeeping differs from the proven model: impl=%s model=%s" % (book_part(x), book_part(y))
                            bx, by = book_part(x).split("."), book_part(y).split(".")
                            # allocs - frees must equal the change in node count the tree itself reports; the model's
                            # node counts are the proven ones
                            violates = len(bx) == 5 and len(by) == 5 and (bx[2:] != by[2:])
                            break
                if first is None and focus == "results" and stda:
                    k = int(stda.split("@")[1].split(":")[0])
                    first, what, violates = k, "tlx container disagrees with the std container: %s" % stda, True
                elif focus == "results" and stda and first is not None:
                    k = int(stda.split("@")[1].split(":")[0])
                    if k <= first:
                        first, what, violates = k, "tlx container disagrees with the std container: %s" % stda, True
                if first is None and focus == "bookkeeping":
                    if fa != "final=ok":
                        first, what, violates = len(ta), "allocator / element-lifetime ledger not clean after destruction: %s %s" % (fa, " ".join(na)), True
                    elif inv.startswith("FAIL"):
                        first, what, violates = len(ta), "extracted invariant checker inv_b rejects the dumped real tree (mutating op #%s)" % inv[5:], True
                    elif fb != "final=ok" or any(x.startswith("MODEL-BAD") for x in nb):
                        first, what = len(ta), "model self-check failed: %s %s" % (fb, " ".join(nb))
                if first is None and focus == "results" and any(x.startswith("MODEL-BAD") for x in nb):
                    first, what = len(ta), "model reached a state it declares impossible: %s" % " ".join(nb)
                if first is not None:
                    found = found or violates
                    short = truncate_case(c, min(first + 1, len(opnames)))
                    ck.violation("%s [op #%d %s]" % (what, first, opnames[first] if first < len(opnames) else "end"),
                                 {"case": short, "full_case": c if len(c) < 6000 else c[:6000], "impl": a[-600:], "model": b[-600:],
                                  "first_divergent_op": first}, no_input=not violates)
                    if ck.violations >= 3:
                        break
            if rc1 != 0 and ck.violations == 0:
                found = True
                report_crash(0)
            for i in (0, ncorpus, ncorpus + 1, ncorpus + 5):
                if i < len(impl) and i < len(cases) and len(samples) < 4:
                    samples.append({"case": cases[i][:400], "result": impl[i][:400]})

    if pr is not None and not pr["ok"]:
        ck.proof_broken(found)

    ck.finish({
        "evaluations": evaluations,
        "distinct_nontrivial": len(distinct),
        "rule": "operation histories over 3 container variables of one configuration (kind x comparator x leaf slots x inner slots x "
                "linear/binary search), generated by 7 biased modes (mixed, grow/shrink, churn at a separator with bound queries right "
                "after erases, duplicate runs with erase-by-iterator, bulk loads at capacity multiples, copy/assign/swap/compare heavy); "
                "non-trivial = the real tree split, merged or changed height during an insert/erase (node allocation beyond the first or a "
                "node free reported by the counting allocator); distinct = distinct case text.",
        "samples": samples,
        "input_distribution": {"cases_per_configuration(kind:leaf:inner:binsearch:greater)": stats,
                               "operations": ophist, "max_tree_depth_reached_per_case": depth_hist},
        "configurations_compiled": [cfg_name(c) for c in cfgs],
        "structure_agreement": "%d/%d dumped real trees are node-for-node equal to the model's tree" % (struct_agree, struct_total),
        "focus": focus,
    }, assumptions=[
        "iterators are modelled as ranks; the harness checks iterator identity against a walk from begin() (const_iterator: from the const begin())",
        "overload variants (const lookups, insert with hint, insert2, operator[], insert(range), range/allocator constructors, std::swap) are chosen per operation from the seed and have the model semantics of the base operation",
        "leaf-chain pointers are derived (in-order leaves); their maintenance is covered by forward/reverse iteration and verify() in the harness",
        "results are canonicalised within runs of equivalent keys (order there is left open by the property)",
        "extraction: ExtrOcamlBasic only; keys/values instantiated with OCaml int in the driver, counters stay Coq nat",
    ])
