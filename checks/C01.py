#!/usr/bin/env python3
"""C01 — B+ tree containers are observationally equal to the std ordered containers:
Coq refinement theorems over the model of btree.hpp + call-by-call correspondence of the extracted model,
the real tlx containers and the std containers (see checks/btree_common.py)."""
import os, sys
sys.path.insert(0, os.path.dirname(os.path.abspath(__file__)))
import btree_common
btree_common.main("C01")
