#!/usr/bin/env python3
"""C17 — LruCacheSet/LruCacheMap and SplayTree: Coq refinement theorems (reference LRU list; sorted list =
std::set/std::multiset) + op-history correspondence of the extracted models against the real classes
(counting allocator, ledger key type, ASan/UBSan), random histories and bounded-exhaustive enumeration."""
import json, os, sys
HERE = os.path.dirname(os.path.abspath(__file__))
sys.path.insert(0, os.path.join(HERE, "..", "lib"))
import verif

API_SURFACE = {
 "files": ["tlx/container/lru_cache.hpp", "tlx/container/splay_tree.hpp"],
 "called_before_audit": [
  "LruCacheSet<int, CountingAlloc>: LruCacheSet() [default alloc argument], clear, put(const Key&), touch, touch_if_exists, erase, erase_if_exists, exists const, size const, pop",
  "LruCacheMap<int, int, CountingAlloc>: LruCacheMap() [default alloc argument], clear, put(const Key&, const Value&), touch, touch_if_exists, erase, erase_if_exists, get, get_touch, exists const, size const, pop",
  "SplayTree<Tracked, std::less<Tracked>, false|true, CountingAlloc>: SplayTree() [default alloc argument], ~SplayTree, insert, erase(const Key&), clear, exists, size const, empty const, find, traverse_preorder const",
  "free functions splay / splay_insert / splay_erase / splay_traverse_preorder / splay_traverse_postorder only through class SplayTree"],
 "newly_added": [
  "SplayTree::erase(const Node*) (token EN = find() then erase(node); the key reference aliases the node being removed) -- all variants",
  "SplayTree(Compare, Allocator) constructor with a run-time comparator DirCmp{reverse} over mirrored keys and a stateful allocator (variant G; a dropped comparator or allocator argument changes answers / the orphan-allocation count)",
  "SplayTree(Allocator) constructor with an explicit stateful allocator (variant A)",
  "aliases splay_set / splay_multiset, fully defaulted template arguments std::less<int>, std::allocator<int>, plain int keys (variants D, G)",
  "SplayTree::check() const after every operation, required to be true (all variants); size/empty/check/traverse_preorder through a const reference",
  "free functions splay, splay_insert, splay_erase, splay_traverse_preorder, splay_traverse_postorder, splay_check (both overloads) called directly on a user-defined node type with lookup key type long != node key type int and a heterogeneous comparator (variant F)",
  "LruCacheMap<std::string, std::string> and LruCacheSet<std::string>: heap-owning keys/values, defaulted Alloc template argument and constructor argument (variant S)",
  "LruCacheMap<int, Tracked, TagAlloc>(alloc) and LruCacheSet<int, TagAlloc>(alloc): ledger value type (copy/destroy bookkeeping), explicit stateful allocator through the constructor, rebound into list_ and map_ (variants T, A); KeyValuePair typedef",
  "LruCacheMap::put(k, get(j)) with j != k: value argument is a reference into the cache (token PG)",
  "exists()/size() of both caches through a const reference",
  "argument aliasing, caches: every LruCacheMap member taking a key by const reference -- put (key; key and value), touch, touch_if_exists, erase, erase_if_exists, get, get_touch, exists -- is also called with the key argument a reference INTO the cache (token @OP,j: the reference get(j) returns; Key and Value of one type: int/int, std::string/std::string, and the int inside a stored Tracked), with generated values often equal to the entry's own key so that the member destroys the entry its argument lives in; model side = the plain operation with the value read at call time",
  "SplayTree::erase(const Node*) with a node pointer kept from an earlier find() (tokens H,k / EH): the node is then an inner node or a leaf, not the root, possibly one of several duplicates",
  "implicit move constructor + move assignment of LruCacheSet / LruCacheMap (token MV: content moved into a temporary and back; stored list iterators must survive)",
  "argument aliasing, SplayTree: insert, erase(const Key&), exists, find called with a reference to the key of the node find() returned (token @OP,j), all variants incl. the free functions",
  "regimes: key universes of 24-48 keys (deep splay trees, long left/right assemblies; unordered_map index growing through rehashes), exhaustive blocks run on a seed-chosen variant"],
 "left_out": [
  "LruCacheMap::put(k, get(k)) (value aliases the entry put() erases first) is generated (repaired in /repo by fixes/C17/04)",
  "move-only Value / Key types: put() takes const references and copies into the list, pop() returns by copy -- such instantiations do not compile, nothing to test",
  "implicit COPY construction / assignment of LruCacheSet / LruCacheMap (copy shares list nodes with the source through the copied iterators: wrong answers, use-after-free) and implicit copy / move / std::swap of SplayTree (shallow root_ copy: double free): misbehave on /repo HEAD, reported as findings in docs/audit/C17.md; not generated (the property text lists no copy operation) -- to be added to the alphabet once the maintainers decide between deleting and implementing them",
  "protected typedefs List/ListIterator/Map of the caches (only reachable by deriving), SplayTree::Node public struct fields (read only through find())",
  "argument aliasing for LruCacheSet: the class hands out no reference, iterator or preview accessor into its storage (pop() returns by value, the typedefs are protected, the members private), so no aliasing call can be written against it; pop()/size()/clear() take no arguments",
  "pop() on an empty cache (assert), traversal functors that modify the tree"]
}

ck = verif.Check("C17")
rng = ck.rng
pr = ck.prove()

# ---------------------------------------------------------------- generators
def pick(rng, w):
    tot = sum(x for _, x in w); p = rng.below(tot)
    for name, x in w:
        if p < x: return name
        p -= x
    return w[-1][0]

# put(k, get(k)): heap-use-after-free in LruCacheMap::put on /repo HEAD (finding, proposed repair fixes/C17/04).
# Off by default so that the unrepaired tree passes; make it the default (and add `lrumap:S P,1,5 PG,1,1 G,1` to the corpus) once repaired.
SELF_ALIAS = os.environ.get("VERIF_C17_SELF_ALIAS", "1") == "1"   # on by default since the repair (fixes/C17/04) is in /repo

ALIAS = {"cache_alias_calls": 0, "cache_alias_calls_destroying_the_aliased_entry": 0, "tree_alias_calls": 0}

def gen_lru(rng, ismap, nops):
    """spec-tracking generator: pop only on a non-empty cache; keys mostly present.
    Map histories of the 'aliasing' flavour store many values equal to a key (often the entry's own key) and call
    members with a key argument that is a reference into the cache (@OP,j = OP(get(j), ..))."""
    l = []                                  # reference recency list of keys, front = MRU
    vals = {}                               # key -> stored value (maps)
    nk = rng.choice([1, 2, 3, 4, 6, 8, 8, 40])   # 40: the unordered_map index grows through several rehashes
    if nk == 40: nops += 40
    mode = rng.below(4)                     # 0 mixed, 1 put/pop (eviction order), 2 touch/erase interleavings, 3 absent-key errors
    aliasing = ismap and rng.below(100) < 40
    ops = []
    def newval(k):
        if not aliasing: return 1 + rng.below(9)
        r = rng.below(100)
        return k if r < 45 else rng.below(nk) if r < 85 else 1 + rng.below(9)
    def apply(name, k):
        if k in l:
            if name in ("T", "TI", "GT"): l.remove(k); l.insert(0, k)
            elif name in ("E", "EI"): l.remove(k); vals.pop(k, None)
    def do_put(k, v):
        if k in l: l.remove(k)
        l.insert(0, k); vals[k] = v
    while len(ops) < nops:
        if nk == 40 and len(ops) < 30: w = [("P", 1)]
        elif mode == 1: w = [("P", 40), ("O", 25), ("T", 10), ("GT", 8), ("S", 4), ("X", 4), ("C", 1)]
        elif mode == 2: w = [("P", 20), ("T", 18), ("TI", 10), ("E", 14), ("EI", 10), ("GT", 10), ("O", 8), ("G", 4), ("S", 2), ("C", 1)]
        elif mode == 3: w = [("P", 10), ("T", 10), ("TI", 8), ("E", 12), ("EI", 8), ("G", 10), ("GT", 10), ("X", 8), ("O", 6), ("C", 6), ("S", 4)]
        else: w = [("P", 25), ("T", 10), ("TI", 6), ("G", 8), ("GT", 8), ("E", 8), ("EI", 6), ("X", 6), ("S", 5), ("O", 10), ("C", 2)]
        name = pick(rng, w)
        if not ismap and name in ("G", "GT"): continue
        if rng.below(100) < 3: name = "MV"       # move the cache into a temporary and back (implicit move members)
        if name in ("S", "C", "MV"):
            ops.append(name)
            if name == "C": l = []; vals.clear()
            continue
        if name == "O":
            if not l: continue
            ops.append("O"); vals.pop(l.pop(), None); continue
        present_bias = 25 if mode == 3 else 80
        if name != "P" and l and rng.below(100) < present_bias: k = rng.choice(l)
        else: k = rng.below(nk)
        if aliasing and l and rng.below(100) < 45:
            # the key argument is a reference into the cache: the stored value of j, as returned by get(j)
            j = rng.choice(l) if rng.below(100) < 92 else rng.below(nk)
            ALIAS["cache_alias_calls"] += 1
            if j in l and vals[j] == j and name in ("P", "E", "EI"): ALIAS["cache_alias_calls_destroying_the_aliased_entry"] += 1
            if name == "P":
                if rng.below(100) < 30:
                    j2 = j if rng.below(100) < 50 else rng.choice(l)      # put(get(j), get(j2)): key and value both alias
                    ops.append("@PG,%d,%d" % (j, j2))
                    if j in l and j2 in l: do_put(vals[j], vals[j2])
                else:
                    v = newval(vals.get(j, 0))
                    ops.append("@P,%d,%d" % (j, v))
                    if j in l: do_put(vals[j], v)
            else:
                ops.append("@%s,%d" % (name, j))
                if j in l: apply(name, vals[j])
            continue
        if name == "P":
            if ismap and l and rng.below(100) < 12:
                # put(k, get(j)): the value argument is a reference to the stored value of a key j (j == k: the
                # entry put() itself erases)
                j = rng.choice(l) if rng.below(100) < 85 else rng.below(nk)
                if j == k and not SELF_ALIAS: j = (k + 1) % max(nk, 2)
                ops.append("PG,%d,%d" % (k, j))
                if j not in l: continue
                do_put(k, vals[j])
            else:
                v = newval(k)
                ops.append("P,%d,%d" % (k, v) if ismap else "P,%d" % k)
                do_put(k, v)
        else:
            ops.append("%s,%d" % (name, k))
            apply(name, k)
    var = rng.choice(["", "", "S", "T"] if ismap else ["", "", "S", "A"])
    return ("lrumap" if ismap else "lruset") + (":" + var if var else "") + " " + " ".join(ops)

def gen_splay(rng, dup, nops):
    nk = rng.choice([1, 2, 3, 4, 5, 8, 8, 48]) if not dup else rng.choice([1, 2, 2, 3, 3, 4, 8, 24])   # 48 / 24: deep trees, long assemblies
    if nk > 8: nops += 40
    mode = rng.below(5)        # 0 mixed, 1 ascending run then probes, 2 descending run then probes, 3 empty/clear heavy, 4 erase heavy
    ops = []
    if mode in (1, 2):
        ks = list(range(nk)) if mode == 1 else list(range(nk - 1, -1, -1))
        reps = 1 + (rng.below(4) if dup else 0)
        for k in ks:
            for _ in range(reps): ops.append("I,%d" % k)
    while len(ops) < nops:
        if mode == 3: w = [("I", 25), ("E", 15), ("X", 15), ("F", 15), ("C", 20), ("T", 10)]
        elif mode == 4: w = [("I", 35), ("E", 35), ("X", 8), ("F", 15), ("C", 2), ("T", 5)]
        else: w = [("I", 35), ("E", 20), ("X", 14), ("F", 20), ("C", 3), ("T", 8)]
        name = pick(rng, w)
        r = rng.below(100)
        if r < 6: ops.append("H,%d" % rng.below(nk)); continue      # keep the node pointer find() returns ...
        if r < 12: ops.append("EH"); continue                       # ... and erase(const Node*) it later (non-root node)
        if name in ("C", "T"): ops.append(name)
        else:
            if name == "E" and rng.below(100) < 35: name = "EN"      # erase(const Node*) on the node returned by find()
            elif rng.below(100) < 15: name = "@" + name; ALIAS["tree_alias_calls"] += 1   # key argument = reference to the key of the node find(k) returns
            ops.append("%s,%d" % (name, rng.below(nk)))
    var = rng.choice(["", "", "G", "D", "A", "F"])
    return ("splaymulti" if dup else "splayset") + (":" + var if var else "") + " " + " ".join(ops)

corpus = [l.strip() for l in open(os.path.join(verif.VERIF, "corpus", "C17", "cases.txt")) if l.strip() and not l.startswith("#")]
ncorpus = len(corpus)
cases = list(corpus)
if ck.replay:
    cases = [json.load(open(ck.replay))["case"]]
    ncorpus = 0
else:
    N = 60000 if ck.thorough() else 5000
    for i in range(N):
        m = i % 8
        if m in (0, 1, 2): cases.append(gen_splay(rng, True, 4 + rng.below(40)))
        elif m in (3, 4): cases.append(gen_splay(rng, False, 4 + rng.below(40)))
        elif m in (5, 6): cases.append(gen_lru(rng, True, 4 + rng.below(40)))
        else: cases.append(gen_lru(rng, False, 4 + rng.below(40)))
    # bounded-exhaustive: every history of the given length over a small key universe (done inside both programs)
    def xv(kind):
        v = rng.choice({"splayset": ["", "G", "D", "A", "F"], "splaymulti": ["", "G", "D", "A", "F"],
                        "lrumap": ["", "S", "T"], "lruset": ["", "S", "A"]}[kind])
        return kind + (":" + v if v else "")
    if ck.thorough():
        cases += ["exh %s 3 5" % xv("splayset"), "exh %s 3 6" % xv("splaymulti"), "exh %s 2 6" % xv("splaymulti"),
                  "exh %s 4 5" % xv("splayset"), "exh %s 2 5" % xv("lrumap"), "exh %s 3 4" % xv("lrumap"), "exh %s 3 5" % xv("lruset")]
    else:
        cases += ["exh %s 3 4" % xv("splayset"), "exh %s 3 4" % xv("splaymulti"), "exh %s 2 5" % xv("splaymulti"),
                  "exh %s 2 3" % xv("lrumap"), "exh %s 3 3" % xv("lruset")]
casefile = os.path.join(ck.scratch, "cases.txt")
open(casefile, "w").write("\n".join(cases) + "\n")

def expand_replay(c):
    """an exhaustive failure names the history as kind_tok_tok...: turn it into an ordinary case line"""
    return c.replace("_", " ")

# ---------------------------------------------------------------- run both sides
found = False
exe, log = ck.build_cpp("c17_harness", ["harness/C17/c17_harness.cpp"])
drv, dlog = ck.ocaml_driver("C17")
import collections
stats = collections.defaultdict(int)
exh_counts = {}
distinct = set()
samples = []
evaluations = 0

def nontrivial(kind, case, line):
    toks = [t.lstrip("@") for t in case.split()[1:]]
    outs = line.split("|")[0].split(" ")
    if kind.startswith("splay"):
        # an erase that removed a key from a tree of >= 3 nodes (second splay + join), or any operation after a clear()
        prev = 0
        for t, o in zip(toks, outs):
            parts = o.split("/")
            if len(parts) < 3: return False
            if (t.startswith("E,") or t.startswith("EN,")) and parts[0] == "b1" and prev >= 3: return True
            if t == "C" and prev >= 1 and t is not toks[-1]: return True
            prev = int(parts[1])
        return False
    # LRU: a pop, or a successful touch/get_touch while at least two keys are cached
    return any(o.startswith("p") for o in outs) or any(t.startswith("PG") and o == "u" for t, o in zip(toks, outs)) or any(t.split(",")[0] in ("T", "TI", "GT") and o in ("u", "b1") or o.startswith("v") and t.startswith("GT") for t, o in zip(toks, outs))

if exe is None:
    ck.violation("correspondence harness does not compile against /repo", {"correspondence": "harness/C17/c17_harness.cpp", "log": log[-2000:]}, no_input=True)
elif drv is None:
    ck.violation("extracted model/driver does not build", {"correspondence": "ocaml/C17_driver.ml", "log": dlog[-2000:]}, no_input=True)
else:
    env = dict(os.environ, ASAN_OPTIONS="detect_leaks=1")
    T_ALL = 2400 if ck.thorough() else 600

    def run_impl(case_list, timeout):
        """run the harness; returns (rc, result lines, raw text). Result lines carry the prefix 'R '."""
        f = os.path.join(ck.scratch, "run.txt"); open(f, "w").write("\n".join(case_list) + "\n")
        rc, out = verif.sh([exe, f], timeout=timeout, env=env)
        return rc, [l[2:].strip() for l in out.splitlines() if l.startswith("R ")], out

    def narrow_exh(block, raw):
        """an exhaustive block crashed / hung: enumerate it verbosely on both sides, the first history the
        harness did not finish is the witness"""
        blockv = block.replace("exh", "exhv", 1)
        f = os.path.join(ck.scratch, "onev.txt"); open(f, "w").write(blockv + "\n")
        r2, o2 = verif.sh([drv, f], timeout=1200)
        r, lines, o = run_impl([blockv], 600)
        done = len([x for x in lines if " => " in x])
        ml = [x for x in o2.splitlines() if " => " in x]
        if done < len(ml): return ml[done].split(" => ")[0], o
        return None, raw

    rc2, out2 = verif.sh([drv, casefile], timeout=T_ALL)
    model = [l.strip() for l in out2.splitlines()]
    if rc2 != 0 or len(model) < len(cases):
        ck.violation("model driver failed", {"correspondence": "ocaml/C17_driver.ml", "log": out2[-1500:]}, no_input=True)
        model += ["<missing>"] * (len(cases) - len(model))
    # the harness may die in the middle (sanitizer report, signal, hang): record the case, restart after it
    impl = []
    crashes = 0
    exit_error = None
    while len(impl) < len(cases):
        rc1, lines, raw = run_impl(cases[len(impl):], T_ALL)
        lines = lines[:len(cases) - len(impl)]
        impl += lines
        if len(impl) >= len(cases):
            if rc1 != 0: exit_error = raw     # e.g. LeakSanitizer at exit
            break
        bad = cases[len(impl)]
        r, l1, o = run_impl([bad], 900 if bad.startswith("exh") else 30)
        witness, log_tail = bad, (o if r != 0 else raw)
        if bad.startswith("exh"):
            w, log_tail = narrow_exh(bad, log_tail)
            witness = w or bad
        found = True; crashes += 1
        ck.violation("real LruCache/SplayTree %s under ASan/UBSan on a valid history" % ("hangs" if rc1 == 124 or r == 124 else "crashes or reports a memory error"),
                     {"case": witness, "reproduces_alone": r != 0, "log_tail": log_tail[-2500:]})
        impl.append("<crash>")
        if crashes >= 3: break
    for idx, c in enumerate(cases[:len(impl)]):
        a = impl[idx]; b = model[idx]
        if a == "<crash>": continue
        kindv = c.split()[0]; kind = kindv.split(":")[0]
        if "INVALID-HISTORY" in b or "MODEL-DIFFERS-FROM-SPEC" in b or "MODELBAD" in b:
            ck.violation("generator/model self-check failed: " + b[-60:], {"case": c, "model": b}, no_input=True); break
        if kind == "exh":
            stats["exh"] += 1
            try: n = int(a.split("count=")[1].split()[0])
            except Exception: n = 0
            exh_counts[c] = n; evaluations += n
            fail = a.split("fail=")[1].split()[0] if "fail=" in a else "-"
            if fail != "-":
                found = True
                ck.violation("implementation violates the reference (std::set/multiset, reference LRU list) in exhaustive block %s" % c,
                             {"case": expand_replay(fail), "block": c, "impl": a})
            elif a != b:
                # locate the first differing history
                cv = c.replace("exh", "exhv", 1)
                one = os.path.join(ck.scratch, "one.txt"); open(one, "w").write(cv + "\n")
                r, l1, o = run_impl([cv], 1200); r2, o2 = verif.sh([drv, one], timeout=1200)
                first = None
                for x, y in zip(l1, o2.splitlines()):
                    if x != y.strip(): first = (x, y); break
                ck.violation("implementation differs from the proven model in exhaustive block %s (no reference violation)" % c,
                             {"correspondence": "harness/C17/c17_harness.cpp vs Splay.srun/Lru.lrun", "case": first[0].split(" => ")[0] if first else None,
                              "impl": first[0] if first else a, "model": first[1] if first else b}, no_input=True)
            continue
        stats[kindv] += 1; evaluations += 1
        if c not in distinct and nontrivial(kind, c, a): distinct.add(c)
        if "PROPFAIL" in a:
            found = True
            ck.violation("implementation violates the property (checked against %s inside the harness): impl=%s" %
                         ("std::set/std::multiset" if kind.startswith("splay") else "a reference LRU list", a[-160:]),
                         {"case": c, "impl": a, "model": b, "replay_cmd": "bin/check C17 --replay <this file>"})
        elif a != b:
            ck.violation("implementation differs from the proven model (no reference violation seen): impl=%s model=%s" % (a[-120:], b[-120:]),
                         {"correspondence": "harness/C17/c17_harness.cpp vs Splay.srun/Lru.lrun", "case": c, "impl": a, "model": b}, no_input=True)
        if ck.violations >= 3: break
    if exit_error is not None and ck.violations == 0:
        ck.violation("sanitizer reported an error at exit of the harness (leak) although every ledger was clean",
                     {"correspondence": "harness/C17/c17_harness.cpp", "log_tail": exit_error[-2500:]}, no_input=True)
    samples = [{"case": cases[i], "result": impl[i]} for i in (0, 3, ncorpus, ncorpus + 3, ncorpus + 5, ncorpus + 7, len(cases) - 1) if 0 <= i < len(impl)]

if pr is not None and not pr["ok"]:
    ck.proof_broken(found)

stats_out = dict(stats); stats_out["exhaustive_block_sizes"] = exh_counts; stats_out.update(ALIAS)
ck.finish({
    "evaluations": evaluations,
    "distinct_nontrivial": len(distinct),
    "rule": "explicit cases = corpus + spec-tracking random histories (key universes 1..8; splay modes: mixed, ascending/descending chains, clear/empty heavy, erase heavy; LRU modes: mixed, put/pop eviction order, touch/erase interleavings, absent-key errors). non-trivial = (splay) an erase that removed a key from a tree of >= 3 nodes or an operation after clear() of a non-empty tree; (LRU) a pop or a successful touch/get_touch; distinct = distinct case text among the explicit cases. In addition exhaustive blocks `exh kind K L` = every valid history of length L over K keys, enumerated identically inside harness and driver and compared by a rolling hash of all outputs (counted in evaluations, not in distinct_nontrivial). Every case runs on the real classes (Tracked keys, counting allocator, ASan+UBSan, reference std::multiset / LRU list inside the harness) and on the extracted Coq model; all answers, size and in-order sequence after every op, final drain / ledger are compared.",
    "samples": samples,
    "input_distribution": stats_out,
    "exhaustive": False,
    "api_surface": API_SURFACE,
}, assumptions=[
    "std::list / std::unordered_map are modelled by their specification (a stored list iterator = the list entry with that key)",
    "LruCacheSet is tied to the same model as LruCacheMap (value fixed to 0); the two classes' texts are separate in C++ and both are run",
    "Compare = std::less over integer keys; node identity = allocation number",
    "pop() on an empty cache is a precondition violation (assert) and excluded from histories",
    "extraction: ExtrOcamlBasic only; nat/list stay Coq inductives",
    "variants (kind:variant) select the C++ instantiation only; PG,k,j is the model history [get j; put k v], EN,k is [find k; erase k]; @OP,j is [get j; OP v] (cache) / [find j; OP x] (tree); mirrored keys under the reversed comparator are mapped back before comparison",
])
