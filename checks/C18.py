#!/usr/bin/env python3
"""C18 — StringView answers every query exactly like std::string_view.

Coq: model of every query of tlx/container/string_view.hpp (coq/C18/SV.v), the [string.view] definitions
(coq/C18/StdSV.v) and the theorems sv_eq_std_<fn> (coq/Properties_C18.v).
Tie: three-way bounded-exhaustive correspondence  tlx::StringView / libstdc++ std::string_view / extracted model
on all (hay, needle) over {0x00,'a','b',0x80,0xFF}, all pos/n in {0..|hay|+2, npos}, plus seeded random longer
strings; the C++ side is compiled from /repo's working tree (-std=c++20, ASan+UBSan) on every run.

Verdicts: tlx != std::string_view on a call  => property violation with that call as replay;
          tlx == std but != model            => correspondence broken (no failing input).
"""
import json, os, sys
from concurrent.futures import ThreadPoolExecutor
HERE = os.path.dirname(os.path.abspath(__file__))
sys.path.insert(0, os.path.join(HERE, "..", "lib"))
import verif

ck = verif.Check("C18")
rng = ck.rng

ALPHA = "00616280ff"
ALPHA_BYTES = [0x00, 0x61, 0x62, 0x80, 0xFF]
PARTS = 3                       # harness processes (the enumeration is split by haystack index)
FLAGS17 = ["-std=c++17", "-O1", "-g", "-fsanitize=address,undefined", "-fno-sanitize-recover=all", "-fno-omit-frame-pointer"]
FLAGS = ["-std=c++20", "-O1", "-g", "-fsanitize=address,undefined", "-fno-sanitize-recover=all",
         "-fno-omit-frame-pointer"]


def hx(bs):
    return "".join("%02x" % b for b in bs) or "-"


def rand_string(lo, hi):
    n = rng.range(lo, hi)
    mode = rng.below(4)
    out = []
    for _ in range(n):
        if mode == 0:   out.append(rng.choice(ALPHA_BYTES))
        elif mode == 1: out.append(rng.choice([0x00, 0x61]))            # many repeats, NULs
        elif mode == 2: out.append(rng.choice([0x61, 0x62, 0x7F, 0x80, 0xFF]))
        else:           out.append(rng.below(256))
    return out


def random_cases(n):
    """longer strings than the exhaustive bound; needles often cut out of the haystack so that searches hit"""
    lines = []
    for i in range(n):
        h = rand_string(5, 12)
        r = rng.below(10)
        if r < 5 and len(h) > 1:
            a = rng.below(len(h)); b = rng.range(a, min(len(h), a + 4))
            s = h[a:b]
            if rng.chance(1, 3) and s:
                s = list(s); s[rng.below(len(s))] = rng.choice(ALPHA_BYTES)
        elif r < 6:
            s = h + rand_string(0, 2)
        else:
            s = rand_string(0, 4)
        k = rng.below(10)
        if k == 0:   lines.append("hay %s" % hx(h))
        elif k == 1 and len(h) <= 7: lines.append("cmp5 %s %s" % (hx(h), hx(s[:3])))
        elif k in (2, 3, 4):
            # aliasing: both views are sub-ranges of the one buffer h (prefix of itself, overlap, adjacent, ...)
            o1 = rng.below(len(h) + 1); l1 = rng.below(len(h) - o1 + 1)
            m = rng.below(5)
            if m == 0:   o2, l2 = o1, rng.below(len(h) - o1 + 1)                     # same start
            elif m == 1: l2 = rng.below(o1 + l1 + 1); o2 = o1 + l1 - l2              # same end
            elif m == 2: o2 = o1 + l1; l2 = rng.below(len(h) - o2 + 1)               # adjacent
            else:        o2 = rng.below(len(h) + 1); l2 = rng.below(min(4, len(h) - o2) + 1)
            lines.append("alias %s %d %d %d %d" % (hx(h), o1, l1, o2, l2))
        elif k == 5:
            o1 = rng.below(len(h) + 1); l1 = rng.below(len(h) - o1 + 1)
            lines.append("mid %s %d %d" % (hx(h), o1, l1))
        else:        lines.append("pair %s %s" % (hx(h), hx(s)))
    return lines


def long_cases(n):
    """strings well beyond the exhaustive bound (13..40 bytes): would expose a size-dependent fast path"""
    lines = []
    for i in range(n):
        h = rand_string(13, 40)
        a = rng.below(len(h)); b = rng.range(a, min(len(h), a + 20))
        s = h[a:b]
        if rng.chance(1, 3) and s:
            s = list(s); s[rng.below(len(s))] = rng.choice(ALPHA_BYTES)
        k = rng.below(4)
        if k == 0:   lines.append("hay %s" % hx(h))
        elif k == 1: lines.append("alias %s %d %d %d %d" % (hx(h), a, b - a, rng.below(a + 1), rng.below(len(h) - a + 1)))
        else:        lines.append("pair %s %s" % (hx(h), hx(s)))
    return lines


def byte_sweep():
    """every byte value 0..255 once as haystack, needle, neighbour and sign-flipped partner: a special case for one
    particular character (outside the 5-letter alphabet) cannot hide"""
    lines = []
    for b in range(256):
        lines += ["hay %02x" % b, "pair %02x %02x" % (b, b), "pair %02x %02x" % (b, b ^ 0x80),
                  "pair %02x %02x" % (b, (b + 1) % 256), "pair 61%02x62 %02x" % (b, b)]
    return lines


# "huge sizes" family: views of 2^31-1, 2^31, 2^31+1, 2^32-1, 2^32, 2^32+1, 2^32+2^31 zero bytes (read-only mapping) against
# these short needles; only queries that touch the ends of the view (harness block G)
HUGE_NEEDLES = ["-", "00", "0000", "000000", "61", "0061", "6100"]


def null_view_cases():
    """default-constructed views (data() == nullptr) on either side, against every needle/hay of length <= 2"""
    small = [[]] + [[a] for a in ALPHA_BYTES] + [[a, b] for a in ALPHA_BYTES for b in ALPHA_BYTES]
    lines = ["hay ~", "pair ~ ~", "pair ~ -", "pair - ~"]
    for s in small[1:]:
        lines += ["pair ~ %s" % hx(s), "pair %s ~" % hx(s)]
    return lines


corpus = [l.strip() for l in open(os.path.join(verif.VERIF, "corpus", "C18", "cases.txt"))
          if l.strip() and not l.startswith("#")]
if ck.replay:
    rc_case = json.load(open(ck.replay)).get("case") or {}
    parts_lines = [[rc_case.get("line", "")]]
    enum_desc = "replay"
else:
    if ck.thorough():
        maxh, maxs, c5h, c5s, nrand = 5, 3, 3, 3, 20000
        afull, asmall = 4, 5          # aliasing: all buffers <= afull over ALPHA, buffers of length asmall over {00,'a',FF}
        nlong = 400
    else:
        nlong = 40
        maxh, maxs, c5h, c5s, nrand = 4, 3, 2, 2, 1500
        afull, asmall = 3, 4
    enum_desc = ("enum %s maxhay=%d maxneedle=%d cmp5: hay<=%d needle<=%d; aliasing: every (ordered) pair of sub-ranges of every "
                 "buffer over %s with |buf|<=%d and over 0061ff with |buf|=%d" % (ALPHA, maxh, maxs, c5h, c5s, ALPHA, afull, asmall))
    rnd = random_cases(nrand) + long_cases(nlong) + byte_sweep()
    parts_lines = []
    for k in range(PARTS):
        ls = []
        if k == 0:
            ls += corpus
            ls += null_view_cases()
            ls += ["huge %s" % s for s in HUGE_NEEDLES]
        ls.append("enum %s %d %d %d %d %d %d" % (ALPHA, maxh, maxs, c5h, c5s, k, PARTS))
        ls.append("aenum %s 0 %d %d %d" % (ALPHA, afull, k, PARTS))
        ls.append("aenum 0061ff %d %d %d %d" % (asmall, asmall, k, PARTS))
        ls += rnd[k::PARTS]
        parts_lines.append(ls)

# One more, small part runs with ASan's detect_stack_use_after_return=1 (lib/verif.py's default for every harness): under
# it this harness is ~10x slower (fake-stack frames, unwinding of the many std::out_of_range), so the bulk enumeration runs
# with it switched off and this part repeats every kind of block on small inputs with it switched on.
usar_part = None
if not ck.replay:
    usar_part = len(parts_lines)
    parts_lines.append(corpus + null_view_cases() + ["huge %s" % s for s in HUGE_NEEDLES[:3]] +
                       ["enum %s 2 2 1 1 0 1" % ALPHA, "aenum %s 0 2 0 1" % ALPHA] + rnd[:nrand:15][:80] + rnd[nrand:nrand + 3])
casefiles = []
for k, ls in enumerate(parts_lines):
    p = os.path.join(ck.scratch, "cases%d.txt" % k)
    open(p, "w").write("\n".join(ls) + "\n")
    casefiles.append(p)

# the C++ harness is compiled while Coq re-checks the theorems (independent; the OCaml driver build shares coq/ with the proof
# build and therefore stays sequential with it)
# A second binary is compiled as C++17 (the overload sets and #if __cplusplus paths most users of tlx get; std::string_view has no
# starts_with/ends_with there, the harness uses the standard's "equivalent to" definitions for the reference side); it runs the
# small stack-use-after-return part.
with ThreadPoolExecutor(max_workers=3) as _ex:
    _fexe = _ex.submit(ck.build_cpp, "c18_harness", ["harness/C18/sv_harness.cpp"], FLAGS)
    _fexe17 = _ex.submit(ck.build_cpp, "c18_harness17", ["harness/C18/sv_harness.cpp"], FLAGS17)
    pr = ck.prove()
    drv, dlog = ck.ocaml_driver("C18")
    exe, log = _fexe.result()
    exe17, log17 = _fexe17.result()
    if exe is not None and exe17 is None:
        exe, log = None, "the C++17 build of the harness failed:\n" + log17

found = False
stats = {"blocks_G": 0, "huge_blocks_unavailable": 0, "blocks_H": 0, "blocks_P": 0, "blocks_C": 0, "blocks_M": 0, "blocks_A": 0, "blocks_with_nullptr_view": 0,
         "alias_same_start_diff_len": 0, "alias_same_end_diff_start": 0, "alias_identical": 0, "alias_adjacent": 0,
         "alias_overlapping": 0, "alias_disjoint": 0}
hist = {}
evaluations = 0
distinct = set()
samples = []
nblocks = 0
TMO = 3000 if ck.thorough() else 900


def run_verbose(tool, line):
    """one block, call by call: {index: {"call":.., "tlx":.., "std":..}} from the harness, {index: {"model":..}} from the driver"""
    one = os.path.join(ck.scratch, "one.txt")
    open(one, "w").write("v" + line + "\n")
    rc, out = verif.sh([tool, one], timeout=120)
    calls = {}
    for l in out.splitlines():
        if not l.startswith("C "):
            continue
        head, _, rest = l[2:].partition(" | ")
        f = head.split(" ", 1)
        if not f[0].isdigit():
            continue                      # output of a dying harness
        d = {"call": f[1] if len(f) > 1 else ""}
        for part in rest.split(" | "):
            k, _, v = part.partition(": ")
            d[{"t": "tlx", "s": "std", "m": "model"}.get(k.strip(), k.strip())] = v.strip()
        calls[int(f[0])] = d
    return calls


def block_line(kind, h, s):
    return {"H": "hay %s" % h, "P": "pair %s %s" % (h, s), "C": "cmp5 %s %s" % (h, s),
            "M": "mid %s %s" % (h, s.replace(",", " ")), "A": "alias %s %s" % (h, s.replace(",", " ")),
            "G": "huge %s %s" % (s, h)}[kind]


def hexlen(x):
    return 0 if x in ("-", "~") else len(x) // 2


if exe is None:
    ck.violation("correspondence harness does not compile against /repo (-std=c++20)",
                 {"correspondence": "harness/C18/sv_harness.cpp", "log": log[-2500:]}, no_input=True)
elif drv is None:
    ck.violation("extracted model/driver does not build", {"correspondence": "ocaml/C18_driver.ml", "log": dlog[-2000:]},
                 no_input=True)
else:
    env = dict(os.environ, ASAN_OPTIONS="detect_leaks=1:abort_on_error=1", UBSAN_OPTIONS="print_stacktrace=1:abort_on_error=1")
    env_bulk = dict(env, ASAN_OPTIONS=env["ASAN_OPTIONS"] + ":detect_stack_use_after_return=0")
    env_usar = dict(env, ASAN_OPTIONS=env["ASAN_OPTIONS"] + ":detect_stack_use_after_return=1")
    order = sorted(range(len(casefiles)), key=lambda k: k != usar_part)          # start the slow small part first
    jobs = [(exe, k) for k in order] + [(drv, k) for k in order]
    with ThreadPoolExecutor(max_workers=4) as ex:
        rs = list(ex.map(lambda j: verif.sh([exe17 if (j[0] is exe and j[1] == usar_part) else j[0], casefiles[j[1]]], timeout=TMO,
                                             env=(env_usar if j[1] == usar_part or ck.replay else env_bulk)), jobs))
    results = [None] * (2 * len(casefiles))
    for (tool, k), r in zip(jobs, rs):
        results[k if tool is exe else len(casefiles) + k] = r
    n = len(casefiles)
    for k in range(n):
        rc1, out1 = results[k]
        rc2, out2 = results[n + k]
        impl = [l for l in out1.splitlines() if l.startswith("B ")]
        model = [l for l in out2.splitlines() if l.startswith("B ")]
        if rc1 != 0:
            # std::terminate or a sanitizer report inside a StringView call: the harness names the call
            found = True
            crash = [l for l in out1.splitlines() if l.startswith("CRASH ")]
            case = None
            what = "harness died (rc=%d) while running StringView queries" % rc1
            if crash:
                why, _, desc = crash[0][6:].partition(" | ")
                f = desc.split()
                if len(f) >= 5:
                    case = {"line": block_line(f[0], f[1], f[2]), "hay": f[1], "needle": f[2], "call_index": int(f[3]),
                            "call": " ".join(f[4:]), "died_with": why}
                    what = "tlx::StringView::%s dies with %s where std::string_view returns or throws std::out_of_range" % (
                        " ".join(f[4:]), why)
            summary = [l.strip()[:300] for l in out1.splitlines()
                       if "ERROR: AddressSanitizer" in l or "runtime error" in l or l.startswith("SUMMARY") or "terminate called" in l or "what():" in l][:6]
            ck.violation(what, {"case": case, "sanitizer_summary": summary, "log_tail": out1[-1500:]}, no_input=(case is None))
            continue
        if rc2 != 0 or len(model) != len(impl):
            ck.violation("model driver failed or produced a different number of blocks (rc=%d, %d vs %d)" % (rc2, len(model), len(impl)),
                         {"correspondence": "ocaml/C18_driver.ml", "log_tail": out2[-1500:]}, no_input=True)
            continue
        for a, b in zip(impl, model):
            fa = a.split(" ", 8); fb = b.split()
            kind, h, s, ncalls, ht, hs, nmis = fa[1], fa[2], fa[3], int(fa[4]), fa[5], fa[6], int(fa[7])
            if kind == "G" and ncalls == 0:
                stats["huge_blocks_unavailable"] += 1      # mmap of the 6 GiB zero mapping failed on this machine
                continue
            nblocks += 1
            evaluations += ncalls
            stats["blocks_" + kind] += 1
            if kind == "P":
                key = "hay=%d,needle=%d" % (hexlen(h), hexlen(s))
                hist[key] = hist.get(key, 0) + 1
            line = block_line(kind, h, s)
            if fb[1:5] != fa[1:5]:
                ck.violation("harness and model driver enumerate different blocks: %s / %s" % (a[:80], b[:80]),
                             {"correspondence": "enumeration order"}, no_input=True)
                break
            hm, hits = fb[5], int(fb[6])
            if "~" in (h, s):
                stats["blocks_with_nullptr_view"] += 1
            if kind == "A":
                o1, l1, o2, l2 = [int(x) for x in s.split(",")]
                if (o1, l1) == (o2, l2): stats["alias_identical"] += 1
                elif o1 == o2: stats["alias_same_start_diff_len"] += 1
                elif o1 + l1 == o2 + l2 and l1 and l2: stats["alias_same_end_diff_start"] += 1
                elif o1 + l1 == o2 or o2 + l2 == o1: stats["alias_adjacent"] += 1
                elif max(o1, o2) < min(o1 + l1, o2 + l2): stats["alias_overlapping"] += 1
                else: stats["alias_disjoint"] += 1
                if hits > 0 and l1 and l2:
                    distinct.add((kind, h, s))
            elif hits > 0 and hexlen(h) > 0 and (kind in ("H", "M") or hexlen(s) > 0):
                distinct.add((kind, h, s))
            if ht != hs:
                # the property itself: tlx differs from std::string_view on identical arguments
                if ck.violations < 3:
                    found = True
                    first = fa[8][2:] if len(fa) > 8 else ""
                    f = first.split()
                    call = first.split(" tlx=")[0].split(" ", 4)[-1] if " tlx=" in first else first
                    ck.violation("tlx::StringView differs from std::string_view: %s (%d of %d calls of this block differ)" % (first, nmis, ncalls),
                                 {"case": {"line": line, "hay": h, "needle": s, "call": call,
                                           "call_index": int(f[3]) if len(f) > 3 and f[3].isdigit() else None,
                                           "result": first.partition(" tlx=")[2]},
                                  "replay_cmd": "bin/check C18 --replay <this file>"})
            elif ht != hm:
                # implementation == std::string_view but != model: the model (or its extraction) is off
                if ck.violations < 3:
                    ci = run_verbose(exe, line); cm = run_verbose(drv, line)
                    diff = [dict(ci[i], index=i, model=cm.get(i, {}).get("model")) for i in sorted(ci)
                            if ci[i].get("tlx") != cm.get(i, {}).get("model")]
                    ck.violation("model differs from tlx::StringView and std::string_view (which agree) on block '%s'" % line,
                                 {"correspondence": "coq/C18/SV.v vs tlx/container/string_view.hpp",
                                  "first_differing_calls": diff[:3], "block": line}, no_input=True)
    # samples: three blocks written out call by call
    if not ck.replay:
        for line in ([corpus[0]] if corpus else []) + ["pair 6100ff 00ff", "alias 61620061 0 3 0 2", "pair ~ 61", parts_lines[0][-1]]:
            ci = run_verbose(exe, line)
            ks = sorted(ci)
            pick = ks[:3] + ks[len(ks) // 2: len(ks) // 2 + 3] + ks[-2:]
            samples.append({"block": line, "ncalls": len(ks), "calls": [ci[i] for i in pick]})
    else:
        line = parts_lines[0][0]
        ci = run_verbose(exe, line)
        samples.append({"block": line, "ncalls": len(ci)})

if pr is not None and not pr["ok"]:
    ck.proof_broken(found)

ck.finish({
    "evaluations": evaluations,
    "blocks": nblocks,
    "distinct_nontrivial": len(distinct),
    "exhaustive": not ck.replay,
    "rule": "evaluations = individual query calls, each executed on tlx::StringView, on std::string_view and on the extracted "
            "Coq model and compared (per-block 62-bit hashes of all encoded results; tlx-vs-std additionally call by call inside the harness). "
            "Blocks: H = unary queries of one haystack (at/[]/front/back/remove_prefix/suffix/to_string/substr/copy/char overloads), "
            "P = all binary queries of (hay, needle) (compare, 6 relational operators x 5 operand type combinations, starts/ends_with, "
            "the six find functions for every pos in {0..|hay|+2, npos} and their (ptr,n)/C-string overloads, compare(pos1,n1,x)), "
            "C = compare(pos1,n1,x,pos2,n2) for all four arguments, "
            "A = the binary queries (compare, == != < > <= >= also against the C string at the needle's address, starts/ends_with, six finds "
            "for every pos, find/rfind(const char*), compare(pos1,n1,x), compare(pos1,n1,x,pos2,n2)) with BOTH views being sub-ranges of one "
            "heap buffer (same start/different length, same end, identical, adjacent, overlapping, disjoint: counted in input_distribution), "
            "M = the unary queries on a view in the middle of a larger buffer (reads outside the view hit foreign bytes, not redzones); "
            "'~' operands are default-constructed views (data() == nullptr); "
            "G = huge sizes: views of 2^31-1, 2^31, 2^31+1, 2^32-1, 2^32, 2^32+1, 2^32+2^31 zero bytes over a read-only MAP_NORESERVE mapping "
            "against 7 short needles: compare in all overloads (pos near the end, counts 2^31, 2^32+1, npos-1, npos), the six operators in "
            "both directions, starts/ends_with, substr / remove_prefix / remove_suffix / copy arithmetic (size() and data() offset), at/[]/back, "
            "forward searches from the last bytes and the backward searches that stop at the end; for these blocks the model is evaluated via the "
            "locality theorems of coq/C18/Window.v (size as N through the extracted *_dims functions, bytes as the short window of zeros the "
            "query looks at), not on a 2^32-element list. Complete enumeration: " + enum_desc +
            "; then the corpus of defect witnesses, default-constructed views against all operands of length <= 2, a sweep over all 256 byte "
            "values, and VERIF_SEED-dependent random strings of length 5..12 and 13..40 (needles cut out of the haystack, aliasing ranges). "
            "Beyond the queries, every H/M block runs every constructor (std::string const& / &&, const char*, (ptr,len), pointer pair, "
            "string iterators, std::string_view and back, nullptr, copy, assignment), all eight iterator accessors, explicit operator std::string, "
            "clear(), remove_prefix/suffix(n > size()) (tlx clamps; reference = std with min(n, size())), operator<< without width, and every "
            "P block swap() and std::hash consistency with ==. "
            "Every block also uses positions/counts 2^32, 2^32+1 and npos-1; every count argument (substr, copy, compare(pos1,n1,..) for needles "
            "of length <= 1, compare(pos1,n1,x,pos2,n2)) runs over 0..len+2 and npos-d for d = 0..len+3 (pos + n wraps for d <= pos); "
            "(ptr,pos,n) overloads over every n <= |needle|; returned / modified views are compared by size(), data() offset and bytes. "
            "distinct_nontrivial = number of distinct blocks (kind, hay, needle) with non-empty operands in which at least one find/rfind "
            "with a non-empty needle found an occurrence, i.e. the needle (or a probed character) really occurs in the haystack "
            "(counted by a probe in the model driver).",
    "samples": samples,
    "input_distribution": dict(stats, pair_blocks_by_length=hist),
}, assumptions=[
    "reference = libstdc++ (g++ 12) std::string_view compiled with -std=c++20; the Coq spec StdSV.v is the text of [string.view]/[char.traits] and is itself compared with libstdc++ through the model on every run",
    "size_type is 64 bit, views are shorter than 2^64-1 bytes (hypothesis of every theorem); plain char is signed (only used to explain the shipped operator<)",
    "std::search / std::find_first_of / std::equal / std::lexicographical_compare / char_traits::compare,find are modelled by their reference loops",
    "only the sign of compare() is compared (the standard fixes nothing else); exceptions are compared by kind (std::out_of_range)",
    "calls whose behaviour std::string_view leaves undefined are not made: operator[] / front / back out of range, remove_prefix/suffix(n > size()), copy() into a destination overlapping the view",
    "throwing calls of compare(pos1,n1,...) are enumerated with n1 in {0, npos} only (the count is irrelevant once pos1 > size())",
    "extraction: ExtrOcamlBasic only; N/Z/list stay Coq inductives",
    "the small part is run by a second binary compiled with -std=c++17 (reference starts_with/ends_with = the standard's 'equivalent to' text); the bulk with -std=c++20",
    "not compared: max_size() (tlx returns size(), documented difference), operator<< under a non-zero stream width (tlx ignores width/fill/adjustfield and does not reset the width: reported to the coordinator as a finding, see docs/audit/C18.md), the value of std::hash",
    "ASan detect_stack_use_after_return=1 only for one small part (corpus, nullptr views, huge sizes, enum |hay|<=2, aliasing |buf|<=2, a sample "
    "of the random cases: every kind of block); the bulk enumeration runs with it off because it makes this harness ~10x slower",
    "huge-size blocks: the driver passes (size, window bytes) to the extracted model instead of the whole byte list, justified by the proved "
    "theorems C18_compare_window, C18_operators_window, C18_substr_compare_factor, C18_starts_ends_with_window, C18_find_shift, C18_rfind_shift "
    "(and their siblings in coq/C18/Window.v); the choice of window offsets in ocaml/C18_driver.ml is hand-written",
])
