#!/usr/bin/env python3
"""C10 -- ThreadPool: Coq LTS theorems (all interleavings) + trace correspondence of the REAL tlx/thread_pool.cpp,
run under the deterministic scheduler shim, against the extracted transition function; plus a direct property
checker on every real trace and a classification of every rest (deadlock) state."""
import json, os, re, sys
from concurrent.futures import ThreadPoolExecutor
HERE = os.path.dirname(os.path.abspath(__file__))
sys.path.insert(0, os.path.join(HERE, "..", "lib"))
import verif

ck = verif.Check("C10")
rng = ck.rng
pr = ck.prove()

# ---------------------------------------------------------------- scenario generator
def gen_scenario(rng, want_safe):
    """Returns (text without sp/st/seed, safe, family). safe = every fair schedule of the repaired code runs to completion
    (needed for the runs with spurious wake-ups, where a rest state cannot be recognised)."""
    W = rng.choice([1, 1, 2, 2, 2, 3, 4])
    C = rng.choice([0, 1, 1, 2, 2, 3])
    fam = rng.choice(["indep", "fanout", "chain", "mixed", "term", "term", "twowait", "twowait"])
    njobs = {"indep": rng.range(1, 6), "fanout": rng.range(2, 7), "chain": rng.range(2, 6), "mixed": rng.range(0, 8),
             "term": rng.range(1, 5), "twowait": rng.range(1, 4)}[fam]
    if fam == "twowait" and C < 2: C = 2
    parent = [None] * njobs                      # job forest: parent job or None (root, enqueued by a thread)
    for j in range(njobs):
        if j == 0: continue
        if fam == "fanout": parent[j] = 0
        elif fam == "chain": parent[j] = j - 1
        elif fam == "indep": parent[j] = None
        else: parent[j] = rng.choice([None] + list(range(j))) if rng.chance(2, 3) else None
    body = [[] for _ in range(njobs)]
    for j in range(njobs):
        if parent[j] is not None: body[parent[j]].append("e%d" % j)
    uses_term = fam == "term" or (fam in ("mixed", "twowait") and rng.chance(1, 3))
    term_jobs = []
    if uses_term and njobs > 0 and rng.chance(2, 3):
        tj = rng.below(njobs); term_jobs.append(tj)
        body[tj].insert(rng.below(len(body[tj]) + 1), "t")
    nthreads = C + 1                              # index 0 = main
    progs = [[] for _ in range(nthreads)]
    roots = [j for j in range(njobs) if parent[j] is None]
    for j in roots: progs[rng.below(nthreads)].append("e%d" % j)
    client_term = uses_term and (not term_jobs or rng.chance(1, 3))
    # waiting operations
    for t in range(nthreads):
        p = progs[t]
        if fam == "twowait" and t >= 1 and t <= 2:
            p.append("L" if (t == 1 or not uses_term or rng.chance(1, 2)) else "T")
        else:
            k = rng.below(3)
            for _ in range(k):
                pos = rng.below(len(p) + 1)
                p.insert(pos, rng.choice(["L", "L", "D"]) if not uses_term else rng.choice(["D", "L", "D"]))
        if rng.chance(1, 2): p.append("D")
    if uses_term:
        if client_term:
            t = rng.below(nthreads); progs[t].append("X")
        if rng.chance(2, 3):
            t = rng.below(nthreads); progs[t].append("T")
    # safety analysis (conservative)
    has_L = any("L" in p for p in progs); has_T = any("T" in p for p in progs)
    any_term = bool(term_jobs) or any("X" in p for p in progs)
    def certain_terminate():
        for p in progs:
            if "X" in p and not any(o in ("L", "T") for o in p[:p.index("X")]): return True
        return False
    if not any_term: safe = not has_T
    else: safe = (not has_L) and ((not has_T) or certain_terminate())
    if want_safe and not safe:
        # repair: drop L when terminating, make termination certain
        if any_term:
            progs = [[o for o in p if o != "L"] for p in progs]
            if any("T" in p for p in progs) and not certain_terminate(): progs[0] = [o for o in progs[0] if o != "T"] + ["X"]
            if any("T" in p for p in progs) and not certain_terminate(): progs = [[o for o in p if o != "T"] for p in progs]
        else:
            progs = [[o for o in p if o != "T"] for p in progs]
        safe = True
    # --- widenings: throwing jobs, callable kinds, closure-destructor continuations, API audit operations, init hook, default ctor
    feat = []
    if njobs > 0 and rng.chance(1, 3):                       # jobs that throw std::runtime_error after their effect
        for j in range(njobs):
            if rng.chance(1, 2): body[j].append("x")
        feat.append("throw")
    if njobs > 0 and rng.chance(1, 4):                       # function pointer / bound member instead of a capturing lambda
        for j in range(njobs):
            r = rng.below(3)
            if r == 1 and j < 8: body[j].insert(0, "F")
            elif r == 2: body[j].insert(0, "B")
        feat.append("kinds")
    if njobs >= 2 and not uses_term and rng.chance(1, 6):    # a job whose closure token enqueues a continuation from its destructor
        cands = [j for j in range(1, njobs) if parent[j] is not None and body[parent[j]][:1] not in (["F"], ["B"])]
        if cands:
            k = rng.choice(cands); pj = parent[k]
            body[pj] = [("c%d" % k) if o == "e%d" % k else o for o in body[pj]]
            feat.append("cont")
            # every enqueuing thread waits for emptiness at its end, so that no closure is left in the queue at destruction
            for t in range(nthreads):
                if any(o[0] == "e" for o in progs[t]) and (not progs[t] or progs[t][-1] != "L"): progs[t].append("L")
    if rng.chance(1, 3):                                     # observers
        for _ in range(rng.range(1, 3)):
            t = rng.below(nthreads); progs[t].insert(rng.below(len(progs[t]) + 1), rng.choice(["S", "I", "H", "R", "D"]))
        feat.append("audit")
    extra = ""
    if rng.chance(1, 4): extra += " init=%d" % rng.below(4); feat.append("init")
    elif rng.chance(1, 6): extra += " dflt=1"; feat.append("dflt")
    if uses_term and rng.chance(1, 5) and "X" not in progs[0]:   # terminate() during start-up of the workers
        progs[0].insert(0, "X"); feat.append("early-term")
    J = ";".join("%d:%s" % (j, ".".join(body[j])) for j in range(njobs)) or "-"
    Cs = ";".join(".".join(p) or "D" for p in progs[1:]) or "-"      # every client has at least one operation
    M = ".".join(progs[0]) or "-"
    return "W=%d J=%s C=%s M=%s%s" % (W, J, Cs, M, extra), safe, fam, feat

def gen_rendezvous(rng):
    """Job bodies that block until another job's body has ended (w<k>), enqueued back-to-back / nested / from two threads, on pools
    with enough workers that every schedule of the correct code completes: a queued job with an idle worker is then a lost wake-up
    of cv_jobs_ (e.g. enqueue() that notifies only when the queue becomes non-empty)."""
    v = rng.below(13) % 7      # variant 6 (under-provisioned, ends in a legitimate rest state) less often
    body = {}; progs = None; feat = ["rendezvous"]; safe = True
    if v == 0:      # pair, back-to-back
        W = rng.range(2, 4); body = {0: ["w1"], 1: []}; enq = ["e0", "e1"]
    elif v == 1:    # chain A waits B waits C
        W = rng.range(3, 4); body = {0: ["w1"], 1: ["w2"], 2: []}; enq = ["e0", "e1", "e2"]
    elif v == 2:    # nested enqueue from inside a job, two waiters for the last job
        W = rng.range(3, 4); body = {0: ["e1", "e2", "w2"], 1: ["w2"], 2: []}; enq = ["e0"]
    elif v == 3:    # the two jobs are enqueued by two different threads (racing enqueues)
        W = rng.range(2, 4); body = {0: ["w1"], 1: []}; enq = None
        progs = [[], ["e0", "L"], ["e1", "L"]]
    elif v == 4:    # warm-up job first, so that the workers are in different phases of going idle when the pair arrives
        W = rng.range(2, 4); body = {0: ["w1"], 1: [], 2: []}; enq = ["e2", "e0", "e1"]
        if rng.chance(1, 2): enq = ["e2", "L", "e0", "e1"]
    elif v == 6:    # under-provisioned: the only worker blocks in job 0, job 1 stays queued -- the job graph never finishes; the rest
                    # state (a blocked job body, a queued job, NO idle worker) is legitimate and must be classified as such
        W = 1; body = {0: ["w1"], 1: []}; enq = ["e0", "e1"]; safe = False; feat.append("underprovisioned")
    else:           # waiter enqueued by a job, awaited job enqueued by the client right behind it
        W = rng.range(2, 4); body = {0: ["e1"], 1: ["w2"], 2: []}; enq = ["e0", "e2"]
    nextra = rng.below(3)                      # independent extra jobs
    base = max(body) + 1
    for j in range(base, base + nextra): body[j] = []
    if progs is None:
        C = rng.choice([0, 1, 1, 2])
        progs = [[] for _ in range(C + 1)]
        t = rng.below(C + 1); progs[t] = list(enq) + ["L"]
    for j in range(base, base + nextra):
        t = rng.below(len(progs)); progs[t].insert(rng.below(len(progs[t]) + 1) if progs[t] and progs[t][-1] != "L" else 0, "e%d" % j)
    for p in progs:
        if any(o[0] == "e" for o in p) and p[-1] != "L": p.append("L")
        if rng.chance(1, 2): p.append("D")
    if rng.chance(1, 4):
        j = rng.choice(sorted(body)); body[j] = body[j] + ["x"]; feat.append("throw")
    extra = ""
    if rng.chance(1, 5): extra = " init=%d" % rng.below(3); feat.append("init")
    J = ";".join("%d:%s" % (j, ".".join(body[j])) for j in sorted(body))
    Cs = ";".join(".".join(p) or "D" for p in progs[1:]) or "-"
    M = ".".join(progs[0]) or "-"
    return "W=%d J=%s C=%s M=%s%s" % (W, J, Cs, M, extra), safe, "rendezvous", feat

def with_run(sc, sp, st, seed): return "%s sp=%d st=%d seed=%d" % (sc, sp, st, seed)

corpus = [l.strip() for l in open(os.path.join(verif.VERIF, "corpus", "C10", "cases.txt")) if l.strip() and not l.startswith("#")]
cases = list(corpus)
fams = {}; feats = {}
tsan_replay = None
if ck.replay:
    cases = [json.load(open(ck.replay))["case"]]
    if cases[0].startswith("tsan_stress"):
        tsan_replay = dict(kv.split("=") for kv in cases[0].split()[1:]); cases = corpus[:1]
else:
    NSC = 7000 if ck.thorough() else 1100          # scenarios; each is run under several schedules
    for k in range(NSC):
        spur = (k % 3 == 2)
        if k % 8 == 5:
            sc, safe, fam, feat = gen_rendezvous(rng)
            if not safe: spur = False
        else: sc, safe, fam, feat = gen_scenario(rng, want_safe=spur)
        fams[fam] = fams.get(fam, 0) + 1
        for ft in feat: feats[ft] = feats.get(ft, 0) + 1
        nsched = 12 if ck.thorough() else 8
        if not safe and not ck.thorough(): nsched = 5      # may end in a (legitimate) rest state = one more child process each: fewer schedules
        for i in range(nsched):
            cases.append(with_run(sc, 1 if spur else 0, i % 2, rng.below(1 << 30)))
casefile = os.path.join(ck.scratch, "cases.txt")
open(casefile, "w").write("\n".join(cases) + "\n")

# ---------------------------------------------------------------- run both sides
found = False
with ThreadPoolExecutor(max_workers=2) as ex:
    f1 = ex.submit(ck.build_cpp, "c10_harness", ["harness/C10/pool_harness.cpp"], None, ["tlx/thread_pool.cpp"],
                   ["-include", os.path.join(verif.VERIF, "harness", "sched", "verif_sched.hpp")])
    # real threads, no shim, ThreadSanitizer: the happens-before edges the property promises (outside the Coq model)
    f2 = ex.submit(ck.build_cpp, "c10_tsan", ["harness/C10/tsan_stress.cpp"],
                   ["-std=c++17", "-O1", "-g", "-w", "-fsanitize=thread", "-DTLX_HAVE_THREAD_SANITIZER=1"], ["tlx/thread_pool.cpp"])
    drv, dlog = ck.ocaml_driver("C10")
    exe, log = f1.result()
    exe_tsan, log_tsan = f2.result()
stats = {"ok": 0, "rest_legit": 0, "spurious_runs": 0, "with_termination": 0, "le_returns": 0, "events": 0,
         "model_skipped_direct_checks_only": 0, "tau_inserted": 0, "tau_skipped": 0, "extra_notifications": 0}
distinct = set()
samples = []
corr_broken = None

def strip_run(c): return re.sub(r" (st|seed|ch)=\S+", "", c)

if exe is None:
    ck.violation("trace harness does not compile against /repo", {"correspondence": "harness/C10/pool_harness.cpp", "log": log[-2000:]}, no_input=True)
elif drv is None:
    ck.violation("extracted model/driver does not build", {"correspondence": "ocaml/C10_driver.ml", "log": dlog[-2000:]}, no_input=True)
else:
    rc1, out1 = verif.sh([exe, casefile], timeout=(2400 if ck.thorough() else 420), env=dict(os.environ, ASAN_OPTIONS="detect_leaks=0"))
    impl = out1.splitlines()
    if rc1 != 0 or len(impl) != len(cases):
        ck.violation("trace harness failed (rc=%d, %d lines for %d cases)" % (rc1, len(impl), len(cases)),
                     {"correspondence": "harness/C10/pool_harness.cpp", "log_tail": out1[-1500:]}, no_input=True)
    else:
        pairfile = os.path.join(ck.scratch, "pairs.txt")
        with open(pairfile, "w") as f:
            for c, a in zip(cases, impl): f.write(c + " ||| " + a + "\n")
        rc2, out2 = verif.sh([drv, pairfile], timeout=3000)
        model = out2.splitlines()
        if rc2 != 0 or len(model) != len(cases):
            ck.violation("model driver failed (rc=%d, %d lines for %d cases)" % (rc2, len(model), len(cases)),
                         {"correspondence": "ocaml/C10_driver.ml", "log_tail": out2[-1500:]}, no_input=True)
        else:
            nviol = 0
            for idx, c in enumerate(cases):
                a = impl[idx]; b = model[idx]
                def replay_case():
                    m = re.search(r" CHOICES (\S*) TRACE", a)
                    return (re.sub(r" ch=\S+", "", c) + " ch=" + m.group(1)) if m else c
                if a.startswith("CRASH"):
                    found = True; nviol += 1
                    ck.violation("real ThreadPool crashes / hangs under the deterministic scheduler (ASan/UBSan): " + a[:200],
                                 {"case": c, "impl": a[-2500:]}, key="crash:" + strip_run(c))
                    if nviol >= 4: break
                    continue
                f = dict(x.split("=", 1) for x in b.split()[1:] if "=" in x)
                kind = b.split()[0] if b else "?"
                if kind not in ("OK", "DEADLOCK") or "model" not in f:
                    corr_broken = corr_broken or ("driver could not process case: " + b[:200], c); continue
                # (a) the property, judged on the implementation's own trace
                if f.get("prop", "ok") != "ok":
                    found = True; nviol += 1
                    ck.violation("real ThreadPool trace violates the property: " + f["prop"].replace("_", " "),
                                 {"case": replay_case(), "impl": a[:3000]}, key="prop:" + strip_run(c))
                if kind == "DEADLOCK":
                    why = f.get("why", "?")
                    ri = f.get("rest_impl", "?")
                    if why.startswith("step_bound"):
                        found = True; nviol += 1
                        ck.violation("real ThreadPool run does not finish within the step bound (livelock?)", {"case": replay_case(), "impl": a[:3000]})
                    elif ri != "legit":
                        found = True; nviol += 1
                        ck.violation("real ThreadPool reaches a rest state the property forbids (lost wake-up / deadlock): %s; state: %s"
                                     % (ri, f.get("implstate", "?").replace(",", " ").replace(":", "=")),
                                     {"case": replay_case(), "impl": a[:3000]}, key="rest:" + strip_run(c))
                    else:
                        stats["rest_legit"] += 1
                    if f["model"] == "accept" and ri == "legit" and (f.get("state_match") != "1" or f.get("quiescent_model") != "1" or f.get("rest_model") != ri):
                        corr_broken = corr_broken or ("rest state differs from the model's: " + b[:300], c)
                else:
                    stats["ok"] += 1
                    if f.get("fin", "ok") != "ok":
                        found = True; nviol += 1
                        ck.violation("real ThreadPool run completed but its bookkeeping violates the property: " + f["fin"].replace("-", " "),
                                     {"case": c, "impl": a[:3000]}, key="fin:" + strip_run(c))
                    if f["model"] == "accept" and f.get("final") != "main-done":
                        corr_broken = corr_broken or ("run completed but the model's main thread is not done: " + b[:300], c)
                # (b) trace correspondence
                if f["model"] == "skipped":
                    stats["model_skipped_direct_checks_only"] += 1
                    if int(f.get("jobs", "0")) >= 1: distinct.add(a if kind == "OK" else a[a.find(" TRACE "):])
                elif f["model"] != "accept":
                    corr_broken = corr_broken or ("real trace not accepted by the Coq LTS: " + f["model"], c)
                else:
                    ev = int(f.get("ev", "0")); stats["events"] += ev
                    if int(f.get("spur", "0")) > 0: stats["spurious_runs"] += 1
                    if f.get("term") == "1": stats["with_termination"] += 1
                    stats["le_returns"] += int(f.get("lers", "0"))
                    stats["tau_inserted"] += int(f.get("tauins", "0")); stats["tau_skipped"] += int(f.get("tauskip", "0")); stats["extra_notifications"] += int(f.get("xnotify", "0"))
                    if int(f.get("jobs", "0")) >= 1 and ev >= 30:
                        distinct.add(a if kind == "OK" else a[a.find(" TRACE "):])
                if nviol >= 4: break
            for i in (0, len(corpus), len(corpus) + 9, len(cases) - 1):
                if 0 <= i < len(cases): samples.append({"case": cases[i], "impl_trace_head": impl[i][:400], "model_verdict": model[i]})
            if corr_broken and not found:
                ck.violation("trace correspondence between the real code and the Coq model is broken: " + corr_broken[0],
                             {"correspondence": "coq/C10/Pool.v lstep vs tlx/thread_pool.cpp under harness/sched", "first_case": corr_broken[1],
                              "detail": corr_broken[0]}, no_input=True)
            elif corr_broken:
                ck.say("# C10: (also) correspondence broken: " + corr_broken[0][:200])

# ---------------------------------------------------------------- real threads under ThreadSanitizer
tsan_rounds = 0; tsan_runs = []
if exe_tsan is None:
    ck.violation("ThreadSanitizer stress program does not compile against /repo", {"correspondence": "harness/C10/tsan_stress.cpp (-fsanitize=thread)", "log": log_tsan[-2000:]}, no_input=True)
else:
    if tsan_replay: plans = [(tsan_replay["rounds"], tsan_replay["seed"], tsan_replay.get("scenario"), tsan_replay.get("round"))]
    elif ck.replay: plans = []
    else: plans = [(1500 if ck.thorough() else 300, str(1 + rng.below(1 << 30)), None, None) for _ in range(4 if ck.thorough() else 2)]
    for rounds, sd, osc, ornd in plans:
        cmd = [exe_tsan, str(rounds), sd] + ([osc, ornd] if osc is not None else [])
        rct, outt = verif.sh(cmd, timeout=(600 if ck.thorough() else 180), env=dict(os.environ, TSAN_OPTIONS="halt_on_error=0 report_signal_unsafe=0"))
        nr = sum(1 for l in outt.splitlines() if l.startswith("R ") or l.startswith("BAD "))
        tsan_rounds += nr; tsan_runs.append({"rounds": rounds, "seed": sd, "completed": nr, "rc": rct})
        i = outt.find("WARNING: ThreadSanitizer")
        bad = [l for l in outt.splitlines() if l.startswith("BAD ")]
        wd = re.search(r"^C10-WATCHDOG scenario=(\S+) round=(\S+) threads=(\S+) seed=(\S+) rounds=(\S+)", outt, flags=re.M)
        if wd or rct == 124:
            found = True
            scn, rnd_, thr = (wd.group(1), wd.group(2), wd.group(3)) if wd else ("?", "?", "?")
            if not wd:
                m = re.findall(r"^ROUND (\d+) (\d+) (\d+)", outt, flags=re.M)
                if m: scn, rnd_, thr = m[-1]
            ck.violation("free-running run (real threads) does not terminate: lost wake-up / deadlock in the thread pool (scenario %s round %s, %s threads)" % (scn, rnd_, thr),
                         {"case": "tsan_stress rounds=%s seed=%s scenario=%s round=%s" % (rounds, sd, scn, rnd_), "threads": thr,
                          "watchdog": wd.group(0) if wd else "stage timeout", "log_tail": outt[-1500:],
                          "replay_cmd": "bin/check C10 --replay <this file>  (or ./tsan_stress %s %s %s %s)" % (rounds, sd, scn, rnd_)}, key="tsan:hang")
            break
        if i >= 0:
            found = True
            m = re.findall(r"^ROUND (\d+) (\d+) (\d+)", outt[:i], flags=re.M)
            scn, rnd_, thr = m[-1] if m else ("?", "?", "?")
            ck.violation("ThreadSanitizer reports a data race between a job's effects and the caller / the pool (real threads): scenario %s round %s, %s threads" % (scn, rnd_, thr),
                         {"case": "tsan_stress rounds=%s seed=%s scenario=%s round=%s" % (rounds, sd, scn, rnd_), "threads": thr, "report": outt[i:i + 3500],
                          "replay_cmd": "bin/check C10 --replay <this file>  (or: build harness/C10/tsan_stress.cpp with -fsanitize=thread; ./tsan_stress %s %s %s %s)" % (rounds, sd, scn, rnd_)},
                         key="tsan:race")
        if bad:
            found = True
            f = bad[0].split(None, 4)
            ck.violation("real-thread run: the jobs' effects are not what the caller sees after loop_until_empty / loop_until_terminate / the destructor: " + bad[0],
                         {"case": "tsan_stress rounds=%s seed=%s scenario=%s round=%s" % (rounds, sd, f[1], f[2]), "threads": f[3], "first_bad": bad[0], "all_bad": bad[:10]},
                         key="tsan:value")
        if i < 0 and not bad and (rct != 0 or (osc is None and nr != int(rounds))):
            ck.violation("ThreadSanitizer stress program failed (rc=%d, %d of %s rounds)" % (rct, nr, rounds),
                         {"case": "tsan_stress rounds=%s seed=%s" % (rounds, sd), "log_tail": outt[-2500:]})
        if i >= 0 or bad: break

if pr is not None and not pr["ok"]:
    ck.proof_broken(found)

ck.finish({
    "evaluations": len(cases) + tsan_rounds,
    "tsan_rounds": tsan_rounds, "tsan_runs": tsan_runs,
    "distinct_nontrivial": len(distinct),
    "traces_validated_against_impl": stats["ok"] + stats["rest_legit"],
    "rule": "scenarios = pool size 1-4, 0-3 client threads + main thread, job forests (independent, fan-out, chains, mixed, jobs calling "
            "terminate(), two concurrent waiters) generated from VERIF_SEED; each scenario is run on the real tlx/thread_pool.cpp under the "
            "deterministic scheduler for several random schedules (uniform and sticky strategy; every third scenario with spurious wake-ups). "
            "Widenings: jobs that throw std::runtime_error after their effect, jobs enqueued as function pointers / bound members, closures whose "
            "captured RAII token reports its destruction (and, in some scenarios, enqueues a continuation from its destructor: these scenarios are "
            "outside the LTS's job language and get the direct checks and the rest-state analysis only), InitThread hooks (with yields, and "
            "terminate() during start-up), the default-size constructor, and the observers size()/idle()/has_idle()/thread(i)/done(). "
            "Rendezvous scenarios (every 8th): job bodies that block until another job's body has ended (pairs, chains, nested enqueues, "
            "racing enqueuers) on pools with enough workers; in the LTS this is the job operation JWait, enabled only when the awaited job has ended. "
            "Trace correspondence is a WEAK simulation against the extracted Coq transition function: the synchronisation skeleton (lock/unlock of the "
            "pool mutex, wait-begin/-end and notify per condition-variable role, notify_one targets, spawn/join/end, job start/end, enqueue and call "
            "markers, the value seen at every loop_until_empty return) must be accepted event by event; loads/stores/RMWs of the bookkeeping atomics are "
            "internal steps (applied when they are the thread's next model step with the same value, skipped otherwise, inserted from the model state when a "
            "visible event needs them: tau_inserted / tau_skipped / extra_notifications; which counter an access touches is resolved against the thread's pending model step; on the shipped code only the observers' own loads (done() after loop_until_empty etc.) are skipped and nothing is inserted). No property verdict is derived from an atomic access: counters are observed through the public API. The pool's objects are identified by role from the "
            "trace, no private member is named. A direct checker evaluates the property on the trace; rest states are classified. "
            "non-trivial = at least one job executed and >= 30 events; distinct = distinct event trace. In addition a real-thread stress program "
            "(no shim, -fsanitize=thread, pools of 1-8 threads, job trees / chains writing plain memory, two concurrent waiters, terminate from a job "
            "and from a client, destructor) runs a few hundred rounds: any TSan report or wrong value is a violation (tsan_rounds).",
    "samples": samples,
    "input_distribution": dict(stats, families=fams, features=feats, corpus=len(corpus)),
}, assumptions=[
    "atomics are sequentially consistent and the fences no-ops under the shim: weak-memory effects / data races are outside the Coq model; the happens-before edges the property promises (job effects -> return of loop_until_empty / loop_until_terminate / destructor, parent job -> enqueued job) are covered at run time by harness/C10/tsan_stress.cpp (real threads, plain memory, ThreadSanitizer, both tiers)",
    "std::mutex / std::condition_variable / std::thread behave as the shim (harness/sched/verif_sched.hpp) implements them; the shim is trusted",
    "a job that throws std::exception is modelled as an ordinary job (the pool's catch block falls through to the bookkeeping); job bodies block only in enqueue()/terminate() or in a rendezvous on another job's completion (JWait in the LTS; the liveness theorems that need the running jobs to finish carry the hypothesis no_blocked_job, the idle-worker / queued-job theorem does not); the pool is destroyed only after all client threads are joined",
    "closure destruction, the InitThread hook, size()/thread(i) have no event in the LTS: they are examined by the direct trace checker only; idle()/has_idle() loads are compared with the model's idle_",
    "schedules are sampled (random, two strategies), not enumerated; the theorems cover all interleavings of the model",
    "extraction: ExtrOcamlBasic only; nat/list stay Coq inductives",
])
