#!/usr/bin/env python3
"""C14 — MD5 / SHA-1 / SHA-256 / SHA-512 digests and SipHash-2-4.

translator (constants, block geometry, shuffle immediates re-parsed from /repo) -> Coq theorems
(chunking independence of the buffering machine for all four digests, hexdump, siphash_sse2 = siphash_plain =
SipHash-2-4, standard test vectors) -> correspondence: extracted model vs. real classes (ASan+UBSan) on generated
messages x chunkings, each implementation result additionally compared with Python hashlib / an independent
SipHash-2-4, and the extracted Coq *spec* compared with hashlib on every message.

Case file (one case per line; both sides print one line per case):
  D <msghex|-> <chunking>/<chunking>/...   chunking = comma separated process() sizes (sum = |msg|), 'e' = no call
       -> "D md5:h=<xxx_hex>:H=<xxx_hex_uc>:<raw>,<hex>,<HEX>:... sha1:... sha256:... sha512:..."
  S <msghex|-> <k>                         all k-splits (k = 2, 3) enumerated inside the harness
       -> "S ok n=<count> <md5> <sha1> <sha256> <sha512>"   |  "S FAIL <algo> split=.. got=.."
  C <algo> <state words hex,...> <blockhex>     the compression function alone
       -> "C <state words hex,...>"
  P <keyhex> <msghex|-> <msg offset> <key offset>    SipHash; offsets = misalignment from a 16-byte boundary
       -> "P plain=<> sse2=<> disp=<>[ def=<>,<>,<>]"
  L <patternhex> <n> <chunking> <variant> <model flag>   long message = pattern (prime period) repeated to n bytes; one history
       -> "L md5=<hex> sha1=<hex> sha256=<hex> sha512=<hex>"   (model only when the flag is 1: the extracted model is slow)
  G <map> <len> <keyhex> / H <algo> <map> <len> <chunks>   messages of about 2^32 bytes over sparse mappings (huge_harness.cpp, -O2,
                                           no sanitizer, own process); judged against siphash_ref.hpp / hashlib, not the model
  V <algo> <map> <len> <mode>              the whole > 2^32-byte message as ONE tlx::string_view (constructor / process / helper)
  T <patternhex> <n> <chunks> <keyhex>     thread stage (threads_harness.cpp, ASan build and TSan build): alone, interleaved with
                                           the next case on one thread, and on 4-8 threads at once
  Z <n> <pre> <algos>                      n zero bytes from an anonymous mapping: <pre> one-byte calls, then ONE process() call
       -> "Z md5=<hex> ..."                 (thorough tier, own harness process; never run on the model)
A D line may carry a 4th token: the variant seed from which the harness derives, per call, the constructor / process()
overload and argument type (see API_SURFACE) and where the half-fed object is copied / assigned / moved.
The model prints the same line followed by " | spec <standard's value(s) from the extracted Coq spec>".
"""
import hashlib, json, os, subprocess, sys, time
HERE = os.path.dirname(os.path.abspath(__file__))
sys.path.insert(0, os.path.join(HERE, "..", "lib")); sys.path.insert(0, os.path.join(HERE, "..", "translate"))
import verif, digest_tables

ck = verif.Check("C14")
rng = ck.rng
ALGOS = ["md5", "sha1", "sha256", "sha512"]
BS = {"md5": 64, "sha1": 64, "sha256": 64, "sha512": 128}
M64 = (1 << 64) - 1

# every public entry point of the anchored files and how harness/C14/digest_harness.cpp reaches it ("X" = MD5, SHA1, SHA256,
# SHA512; "x" = md5, sha1, sha256, sha512). Which one a given call uses is derived from the D/L case's variant seed.
API_SURFACE = [
    {"entry": "X::X()", "called": True, "by": "feed() ctor choice 0; S and Z cases"},
    {"entry": "X::X(const void*, std::uint32_t)", "called": True, "by": "feed() ctor choice 1 (first chunk)"},
    {"entry": "explicit X::X(tlx::string_view)", "called": True, "by": "feed() ctor choices 2-5: argument a tlx::string_view, a std::string, a std::string_view, a NUL-terminated const char* (chunks without 0x00)"},
    {"entry": "X::process(const void*, std::uint32_t)", "called": True, "by": "feed() choice 0; (nullptr, 0) for empty chunks; single calls of up to 4 MiB (L) and 512 MiB (Z, thorough)"},
    {"entry": "X::process(tlx::string_view)", "called": True, "by": "feed() choices 1-6: tlx::string_view (also default-constructed for empty chunks), std::string lvalue, std::string rvalue, std::string_view, const char*"},
    {"entry": "X::finalize(void*)", "called": True, "by": "digest_case(): into an exact-size heap block, compared with digest()"},
    {"entry": "X::digest()", "called": True, "by": "digest_case(), all_splits(); messages with 0x00 / 0xff / 0x80 at the first, middle and last digest byte are generated for every algorithm"},
    {"entry": "X::digest_hex()", "called": True, "by": "digest_case(), long_case(), zero_case()"},
    {"entry": "X::digest_hex_uc()", "called": True, "by": "digest_case()"},
    {"entry": "X::kDigestLength", "called": True, "by": "size of the finalize() block and of digest()"},
    {"entry": "X copy constructor / copy assignment / move constructor (implicit)", "called": True, "by": "feed(): a half-fed object is copied / assigned over another half-fed object / moved and feeding continues on the new object; after a copy construction BOTH objects receive the remaining chunks and must agree (twin)"},
    {"entry": "input / output pointer alignment", "called": True, "by": "cut(): every chunk starts 0..7 bytes off the aligned start of its exact-size block (also on the compress-straight-from-input path); finalize() writes to a block misaligned by 0..7; siphash key and message at offsets 0..15; T/H stages pass pointers into one buffer at arbitrary offsets"},
    {"entry": "use after finalize()/digest() (process again, digest twice)", "called": True, "by": "digest_case(): exercised for memory errors only, values ignored -- the headers do not define it and the property text speaks of process() calls followed by one output"},
    {"entry": "one tlx::string_view of >= 2^32 bytes to X(view) / process(view) / x_hex(view)", "called": True, "by": "huge stage V cases (corpus witness of the repaired size_t -> uint32 truncation, plus one generated per run)"},
    {"entry": "x_hex(const void*, std::uint32_t)", "called": True, "by": "helper_all(), long_case()"},
    {"entry": "x_hex(tlx::string_view)", "called": True, "by": "helper_all(): tlx::string_view, std::string, std::string_view, const char*"},
    {"entry": "x_hex_uc(const void*, std::uint32_t)", "called": True, "by": "helper_all()"},
    {"entry": "x_hex_uc(tlx::string_view)", "called": True, "by": "helper_all(): tlx::string_view, std::string, std::string_view, const char*"},
    {"entry": "siphash_plain(const uint8_t key[16], const uint8_t*, size_t)", "called": True, "by": "P cases, key and message at offsets 0..7 from a 16-byte boundary, ending at the end of the heap block"},
    {"entry": "siphash_sse2(const uint8_t key[16], const uint8_t*, size_t)", "called": True, "by": "P cases (same placement)"},
    {"entry": "siphash(const uint8_t key[16], const uint8_t*, size_t)", "called": True, "by": "P cases: disp="},
    {"entry": "siphash(const uint8_t*, size_t)  [default key]", "called": True, "by": "every P case: def[0]"},
    {"entry": "siphash(const char*, size_t)  [default key]", "called": True, "by": "every P case: def[1]"},
    {"entry": "siphash(tlx::string_view)  [default key]", "called": True, "by": "every P case: def[2]"},
    {"entry": "siphash(std::string) / siphash(std::string_view)  [default key]", "called": True, "by": "every P case: def[3], def[4] (resolved to the value template before fixes/C14/02, to the new overloads after)"},
    {"entry": "template <typename Type> siphash(const Type&)  [default key, object representation]", "called": True, "by": "P cases with |msg| in {1,2,3,4,8,12,16,32}: std::array<uint8_t,N>, and uint32_t / uint64_t for 4 / 8: tpl="},
    {"entry": "siphash_load64_le(const uint8_t*)", "called": True, "by": "indirectly (siphash_plain)"},
    {"entry": "xxx_compress (file-local)", "called": True, "by": "C cases through harness/C14/compress_*.cpp"},
]

translator_error = None
try:
    ck.regen([digest_tables.generate])
except RuntimeError as e:
    translator_error = str(e)

# harnesses first (four builds side by side): the long-running cases (Z: one 2^29-byte call; G/H: messages of 2^32 bytes
# and more) run in their own processes while Coq re-checks the theorems and the main stage runs
import threading
_builds = {}


def _build(tag, name, sources, flags, repo_sources):
    _builds[tag] = ck.build_cpp(name, sources, flags=flags, repo_sources=repo_sources)


DIGEST_SRC = ["tlx/digest/md5.cpp", "tlx/digest/sha1.cpp", "tlx/digest/sha256.cpp", "tlx/digest/sha512.cpp", "tlx/string/hexdump.cpp"]
_bt = [threading.Thread(target=_build, args=a_) for a_ in [
    ("main", "c14_harness", ["harness/C14/digest_harness.cpp", "harness/C14/compress_md5.cpp", "harness/C14/compress_sha1.cpp",
                             "harness/C14/compress_sha256.cpp", "harness/C14/compress_sha512.cpp"], None, ["tlx/string/hexdump.cpp"]),
    ("huge", "c14_huge", ["harness/C14/huge_harness.cpp"], verif.CXXFLAGS_FAST, DIGEST_SRC),
    ("tasan", "c14_threads_asan", ["harness/C14/threads_harness.cpp"], None, DIGEST_SRC),
    ("ttsan", "c14_threads_tsan", ["harness/C14/threads_harness.cpp"], ["-std=c++17", "-O1", "-g", "-fsanitize=thread"], DIGEST_SRC)]]
for t_ in _bt: t_.start()
for t_ in _bt: t_.join()
exe, log = _builds["main"]
hexe, hlog = _builds["huge"]
replay_case = json.load(open(ck.replay))["case"] if ck.replay else None
replay_obj = json.load(open(ck.replay)) if ck.replay else None

# Z: one single process() call of 2^29 bytes (a 32-bit bit-length computation overflows exactly there), also after one
# buffered byte. quick: one algorithm picked by the seed; thorough: all four, and the buffered variant.
zcases = []
if not ck.replay:
    zcases = ["Z 536870912 0 md5,sha1,sha256,sha512", "Z 536870913 1 md5,sha256"] if ck.thorough() else \
             ["Z 536870912 0 %s" % ["md5", "sha1", "sha256", "sha512"][ck.seed % 4]]
elif replay_case.startswith("Z"):
    zcases = [replay_case]
zfile = os.path.join(ck.scratch, "zcases.txt")
open(zfile, "w").write("".join(c + "\n" for c in zcases))
zproc = subprocess.Popen([exe, zfile], stdout=subprocess.PIPE, stderr=subprocess.STDOUT, universal_newlines=True) if (zcases and exe) else None

# G/H: huge messages over sparse read-only mappings ('z' all zero, 'n' non-zero pages at the start and around 2^32), see
# harness/C14/huge_harness.cpp. SipHash: the block count / tail index must use all 64 bits of len; digests: byte and bit
# counters beyond 2^32 bytes. quick: SipHash 2^32+13 and one digest picked by the seed; thorough: everything.
G32 = 1 << 32
_G30 = 1 << 30
_hr = verif.SplitMix64(ck.seed * 7919 + 17)
_hkey = bytes(_hr.below(256) for _ in range(16)).hex()


def _hchunks(n):
    c1 = 1 + _hr.below(63); c2 = (1 << 31) + _hr.below(1000); c3 = (1 << 30) + 64 * _hr.below(1000)
    return "%d,%d,%d,%d" % (c1, c2, c3, n - c1 - c2 - c3)


def view_cases(algo, k):
    """ONE tlx::string_view whose length is just above a multiple of the 2^30-byte piece size of process(string_view): the last
    piece lies in a marker region that differs from the head of the message (C14_12)"""
    return ["V %s %s %d %d" % (algo, "nz"[(k + i_) % 2], n_, (k + i_) % 3) for i_, n_ in enumerate((_G30 + 200, 2 * _G30 + 7, 3 * _G30 + 5))]


def big_single_calls(algo, subset):
    """ONE process(const void*, uint32) call of n bytes, n around 2^31 and up to the type's maximum 2^32 - 1, on an empty buffer
    and after a short first chunk (1 or 63 bytes: the buffered path then sees the big size, C14_7).
    subset (quick): three calls -- 2^31 after one short chunk, 2^31-1 or 2^31+5 after the other short chunk, and on an empty
    buffer 2^32-1 (fast classes) or the remaining one of 2^31-1 / 2^31+5; otherwise all twelve combinations."""
    ns = ((1 << 31) - 1, 1 << 31, (1 << 31) + 5, (1 << 32) - 1)
    if subset:
        p1, p2 = ((1, 63), (63, 1))[ck.seed % 2]
        na, nb = ((ns[0], ns[2]), (ns[2], ns[0]))[(ck.seed // 2) % 2]
        combos = [(ns[1], p1), (na, p2), (ns[3] if algo in ("md5", "sha1") else nb, 0)]
    else:
        combos = [(n_, pre) for n_ in ns for pre in (0, 1, 63)]
    return ["H %s %s %d %s" % (algo, "zn"[(k_ + pre) % 2], n_ + pre, ("%d,%d" % (pre, n_)) if pre else str(n_)) for k_, (n_, pre) in enumerate(combos)]


hcases = []
if not ck.replay:
    # corpus lines of the huge stage (G / H / V) run first
    hcorpus = [l.strip() for l in open(os.path.join(verif.VERIF, "corpus", "C14", "cases.txt")) if l[:2] in ("G ", "H ", "V ")]
    if ck.thorough():
        hcases = ["G z %d %s" % (G32 - 3, _hkey), "G z %d %s" % (G32, _hkey), "G z %d %s" % (G32 + 13, _hkey),
                  "G n %d %s" % (G32 - 3, _hkey), "G n %d %s" % (G32 + 13, _hkey)]
        hcases += ["H %s %s %d %s" % (a_, "n" if i_ % 2 == 0 else "z", G32 + 13 + i_, _hchunks(G32 + 13 + i_)) for i_, a_ in enumerate(ALGOS)]
        hcases += ["V %s n %d %d" % (a_, G32 + 13 + i_, i_ % 3) for i_, a_ in enumerate(ALGOS)]
        for i_, a_ in enumerate(ALGOS): hcases += view_cases(a_, i_)
        for a_ in ALGOS: hcases += big_single_calls(a_, False)
    else:
        a_ = ALGOS[(ck.seed + 1) % 4]
        hcases = ["G n %d %s" % (G32 + 13, _hkey), "H %s n %d %s" % (a_, G32 + 13, _hchunks(G32 + 13)),
                  ] + view_cases(ALGOS[(ck.seed + 2) % 4], ck.seed)
        hcases += big_single_calls(ALGOS[(ck.seed + 3) % 4], True)
    hcases = hcorpus + [c for c in hcases if c not in hcorpus]
elif replay_case[:2] in ("G ", "H ", "V "):
    hcases = [replay_case]
hfile = os.path.join(ck.scratch, "hcases.txt")
open(hfile, "w").write("".join(c + "\n" for c in hcases))
hproc = subprocess.Popen([hexe, hfile], stdout=subprocess.PIPE, stderr=subprocess.STDOUT, universal_newlines=True) if (hcases and hexe) else None


MARK_A = [7, 13, 29, 37, 43, 53]
MARK_B = [1, 5, 17, 33, 65, 129]
MAPLEN = G32 + 65536
MARK_REGIONS = [(0, 4096)] + [(k * _G30 - 4096, k * _G30 + 4096) for k in (1, 2, 3, 4)] + [(MAPLEN - 4096, MAPLEN)]


def huge_content(mapping, n):
    """the first n bytes of mapping 'n' / 'z' of huge_harness.cpp (same marker table), in pieces"""
    v = 0 if mapping == "n" else 1
    zero = bytes(1 << 24)
    pos = 0
    for r, (lo, hi) in enumerate(MARK_REGIONS):
        for a_, b_, data in ((pos, lo, None), (lo, hi, bytes((MARK_A[(r + v) % 6] * j + MARK_B[r] + 97 * v) & 255 for j in range(hi - lo)))):
            b_ = min(b_, n)
            if b_ <= a_: continue
            if data is not None:
                yield data[:b_ - a_]
            else:
                left = b_ - a_
                while left > 0:
                    k = min(left, len(zero)); yield zero[:k] if k < len(zero) else zero; left -= k
        pos = hi


hexpect = {}


def _hashlib_huge():
    for c in hcases:
        t = c.split()
        if t[0] in ("H", "V"):
            h = hashlib.new(t[1])
            for piece in huge_content(t[2], int(t[3])): h.update(piece)
            hexpect[c] = "%s %s=%s" % (t[0], t[1], h.hexdigest())


_hth = threading.Thread(target=_hashlib_huge); _hth.start()      # hashlib releases the GIL on large updates

stage_times = {"builds_done": round(time.time() - ck.t0, 1)}
pr = ck.prove() if translator_error is None else None
stage_times["prove_done"] = round(time.time() - ck.t0, 1)


# ------------------------------------------------------------------------------ independent references
def sip24(key, msg):
    """SipHash-2-4 written from the paper (independent of the Coq model and of tlx)."""
    def rotl(x, b): return ((x << b) | (x >> (64 - b))) & M64
    k0 = int.from_bytes(key[:8], "little"); k1 = int.from_bytes(key[8:16], "little")
    v = [k0 ^ 0x736f6d6570736575, k1 ^ 0x646f72616e646f6d, k0 ^ 0x6c7967656e657261, k1 ^ 0x7465646279746573]

    def rnd():
        v[0] = (v[0] + v[1]) & M64; v[1] = rotl(v[1], 13); v[1] ^= v[0]; v[0] = rotl(v[0], 32)
        v[2] = (v[2] + v[3]) & M64; v[3] = rotl(v[3], 16); v[3] ^= v[2]
        v[0] = (v[0] + v[3]) & M64; v[3] = rotl(v[3], 21); v[3] ^= v[0]
        v[2] = (v[2] + v[1]) & M64; v[1] = rotl(v[1], 17); v[1] ^= v[2]; v[2] = rotl(v[2], 32)
    b = len(msg)
    padded = msg + b"\0" * (7 - b % 8) + bytes([b & 255])
    for i in range(0, len(padded), 8):
        m = int.from_bytes(padded[i:i + 8], "little")
        v[3] ^= m; rnd(); rnd(); v[0] ^= m
    v[2] ^= 0xff
    rnd(); rnd(); rnd(); rnd()
    return v[0] ^ v[1] ^ v[2] ^ v[3]


def unhex(s):
    return b"" if s == "-" else bytes.fromhex(s)


def expected_line(case):
    """what the property demands of the implementation's line (None = no independent reference: C cases)"""
    t = case.split()
    if t[0] == "D":
        msg = unhex(t[1]); nch = len(t[2].split("/"))
        parts = []
        for a in ALGOS:
            h = hashlib.new(a, msg).hexdigest()
            parts.append("%s:h=%s:H=%s" % (a, h, h.upper()) + "".join(":%s,%s,%s" % (h, h, h.upper()) for _ in range(nch)))
        return "D " + " ".join(parts)
    if t[0] == "S":
        msg = unhex(t[1]); n = len(msg); k = int(t[2])
        cnt = n + 1 if k == 2 else (n + 1) * (n + 2) // 2
        return "S ok n=%d " % cnt + " ".join(hashlib.new(a, msg).hexdigest() for a in ALGOS)
    if t[0] == "P":
        key = unhex(t[1]); msg = unhex(t[2]); v = "%016x" % sip24(key, msg)
        d = "%016x" % sip24(bytes(range(16)), msg)
        s = "P plain=%s sse2=%s disp=%s ref=%s def=%s" % (v, v, v, v, ",".join([d] * 5))
        if len(msg) in (1, 2, 3, 4, 8, 12, 16, 32):
            s += " tpl=" + d
        return s
    if t[0] == "L":
        msg = long_msg(t[1], int(t[2]))
        return "L " + " ".join("%s=%s" % (a, hashlib.new(a, msg).hexdigest()) for a in ALGOS)
    if t[0] == "Z":
        n = int(t[1]); out = []
        for a in t[3].split(","):
            h = hashlib.new(a); z = bytes(1 << 20)
            for _ in range(n >> 20): h.update(z)
            h.update(bytes(n & ((1 << 20) - 1)))
            out.append("%s=%s" % (a, h.hexdigest()))
        return "Z " + " ".join(out)
    return None


def long_msg(pathex, n):
    pat = bytes.fromhex(pathex)
    return (pat * (n // len(pat) + 1))[:n]


def expected_spec(case):
    t = case.split()
    if t[0] in ("D", "S"):
        return "spec " + " ".join(hashlib.new(a, unhex(t[1])).hexdigest() for a in ALGOS)
    if t[0] == "P":
        return "spec %016x" % sip24(unhex(t[1]), unhex(t[2]))
    return None


# ------------------------------------------------------------------------------ generators
def rbytes(n, style=None):
    style = rng.below(8) if style is None else style
    if style == 0: return bytes(n)
    if style == 1: return b"\xff" * n
    if style == 2: return b"\x80" * n                       # looks like padding
    return bytes(rng.below(256) for _ in range(n))


def hx(b):
    return b.hex() if b else "-"


BOUNDARY = [55, 56, 57, 63, 64, 65, 111, 112, 113, 119, 120, 121, 127, 128, 129]


def cuts_to_sizes(n, cuts):
    cuts = sorted(min(max(c, 0), n) for c in cuts)
    pts = [0] + cuts + [n]
    return [pts[i + 1] - pts[i] for i in range(len(pts) - 1)]


def biased_cut(n):
    r = rng.below(10)
    if r < 4: return rng.below(n + 1)
    if r < 8:
        base = 64 * rng.below(n // 64 + 1) if rng.chance(1, 2) else 128 * rng.below(n // 128 + 1)
        return base + rng.choice(BOUNDARY) - 64 * rng.below(2)
    return rng.choice([0, n, 1, n - 1])


def chunkings_for(n, extra, drip):
    cs = []
    cs.append("e" if n == 0 and rng.chance(1, 2) else str(n))
    cs.append(",".join(map(str, cuts_to_sizes(n, [rng.below(n + 1)]))))
    for _ in range(extra):
        k = rng.range(2, 6)
        sizes = cuts_to_sizes(n, [biased_cut(n) for _ in range(k)])
        if rng.chance(1, 3): sizes.insert(rng.below(len(sizes) + 1), 0)     # empty process() call
        cs.append(",".join(map(str, sizes)))
    if drip and n > 0:
        cs.append(",".join(["1"] * n))
    return "/".join(cs)


def carries(case):
    """D case: some chunking leaves a partial block in buf_ between two process() calls (cut not on a 64-multiple)"""
    t = case.split()
    for ch in t[2].split("/"):
        if ch == "e": continue
        sizes = [int(x) for x in ch.split(",")]
        off = 0
        for s in sizes[:-1]:
            off += s
            if off % 64 != 0 and off < sum(sizes): return True
    return False


special = {}


def gen_cases():
    cases = []
    thorough = ck.thorough()
    if thorough:
        lengths = list(range(0, 301)) + list(range(990, 1101)) + [2048, 4095, 4096, 10007, 20000]
        per_len = 2
    else:
        lengths = list(range(0, 201)) + sorted(set(rng.range(201, 300) for _ in range(12))) + \
                  [1000, 1007, 1008, 1015, 1016, 1023, 1024, 1025, 1079, 1080, 1087, 1088, 1100] + \
                  [rng.range(990, 1100) for _ in range(3)] + [3000 + rng.below(200)]
        per_len = 1
    for n in lengths:
        for rep in range(per_len):
            msg = rbytes(n)
            big = n > 2000
            cases.append("D %s %s %d" % (hx(msg), chunkings_for(n, 1 if big else (3 if thorough else 2), drip=(not big) and (n % 8 == rep or n in (55, 56, 64, 112, 128))),
                                         0 if rng.chance(1, 8) else rng.range(1, 999999)))
    # finalize / digest after zero process() calls, and after only empty ones
    cases.append("D - e/0/0,0,0 %d" % rng.range(1, 999999))
    # messages whose raw digest starts / ends with 0x00, starts with 0xff / 0x80, or has 0x00 in the middle (raw accessor
    # through a C string or a signed char would truncate / sign-extend)
    for a in ALGOS:
        want = {"first00": lambda d: d[0] == 0, "last00": lambda d: d[-1] == 0, "firstff": lambda d: d[0] == 0xff,
                "first80": lambda d: d[0] == 0x80, "mid00": lambda d: d[len(d) // 2] == 0}
        base = rbytes(rng.range(1, 70), 3)
        ctr = 0
        while want and ctr < 400000:
            m = base + ctr.to_bytes(4, "little"); ctr += 1
            d = hashlib.new(a, m).digest()
            for k in [k for k, f in want.items() if f(d)]:
                del want[k]
                cut_ = rng.below(len(m) + 1)
                cases.append("D %s %d/%d,%d %d" % (hx(m), len(m), cut_, len(m) - cut_, rng.range(1, 999999)))
                special[a + ":" + k] = special.get(a + ":" + k, 0) + 1
    # long messages: ONE process() call with many whole blocks, with curlen_ == 0 and != 0 before it, a short tail call;
    # lengths around 2^16 and 2^20; model only for the short ones (extracted model: ~7 ms per 64 bytes over the four digests)
    def long_case(n, pre, tail, model):
        pat = rbytes(251, 3)
        sizes = ([pre] if pre else []) + [n - pre - tail] + ([tail] if tail else [])
        cases.append("L %s %d %s %d %d" % (pat.hex(), n, ",".join(map(str, sizes)), rng.range(1, 999999) if rng.chance(3, 4) else 0, 1 if model else 0))
    long_case(20000 + rng.below(3000), 0, 0, True)
    long_case(24576 + 64 * rng.below(100), rng.range(1, 63), rng.below(2) * rng.range(1, 200), True)
    for n in (65535, 65536, 65537):
        long_case(n, rng.choice([0, 0, 1, 17, 63, 64, 65]), 0, thorough and n != 65536)
    for n in (1048575, 1048576, 1048577):
        long_case(n, rng.choice([0, 1, 63, 64, 127, 128, 129]), rng.below(2) * rng.range(1, 300), False)
    long_case(rng.range(40, 120) * 1024 + rng.below(64), 0, rng.range(1, 63), False)
    long_case(rng.range(40, 120) * 1024 + rng.below(64), rng.range(1, 127), 0, False)
    long_case(rng.range(1, 4) * 1048576 + 64 * rng.below(1000), 0, 0, False)
    long_case(rng.range(1, 4) * 1048576 + rng.below(100000), rng.range(1, 127), rng.range(0, 130), False)
    if thorough:
        for _ in range(6):
            long_case(rng.range(30000, 3000000), rng.choice([0, rng.range(1, 127)]), rng.choice([0, rng.range(1, 127)]), False)
    # all 2-splits (and 3-splits for short messages) inside the harness
    for n in (range(0, 301) if thorough else range(0, 141)):
        cases.append("S %s 2" % hx(rbytes(n, 3)))
    for n in (range(0, 72) if thorough else list(range(0, 12)) + [55, 56, 57, 63, 64, 65]):
        cases.append("S %s 3" % hx(rbytes(n, 3)))
    if thorough:
        for n in (111, 112, 113, 119, 120, 127, 128, 129, 130):
            cases.append("S %s 3" % hx(rbytes(n, 3)))
    # compression functions alone, arbitrary chaining state
    words = {"md5": (4, 8), "sha1": (5, 8), "sha256": (8, 8), "sha512": (8, 16)}
    for a in ALGOS:
        for _ in range(400 if thorough else 60):
            nw, wd = words[a]
            style = rng.below(6)
            st = ",".join(("%0*x" % (wd, (0 if style == 0 else (16 ** wd - 1) if style == 1 else rng.next() & (16 ** wd - 1)))) for _ in range(nw))
            cases.append("C %s %s %s" % (a, st, hx(rbytes(BS[a], rng.choice([0, 1, 3, 3, 3])))))
    # SipHash: lengths x keys x alignments
    defkey = bytes(range(16))
    lens = list(range(0, 65)) + ([100, 255, 256, 257, 263, 511, 512, 513, 1000] if thorough else [255, 256, 257])
    for n in lens:
        reps = 8 if thorough else 3
        for r in range(reps):
            key = defkey if r == 0 else rbytes(16, rng.choice([0, 1, 3, 3, 3, 3]))
            am = (r % 8 if thorough else rng.below(8)) + 8 * rng.below(2)
            ak = rng.below(16) if r % 2 else 0
            cases.append("P %s %s %d %d" % (key.hex(), hx(rbytes(n, rng.choice([0, 1, 3, 3, 3, 3]))), am, ak))
    return cases


corpus = [l.strip() for l in open(os.path.join(verif.VERIF, "corpus", "C14", "cases.txt")) if l.strip() and not l.startswith("#") and l[:2] not in ("G ", "H ", "V ")]
if ck.replay:
    cases = [json.load(open(ck.replay))["case"]]
    ncorpus = 0
else:
    cases = corpus + gen_cases()
    ncorpus = len(corpus)
if ck.replay and (cases[0][:2] in ("Z ", "G ", "H ", "V ") or cases[0].startswith("TSTAGE")):
    cases = []
casefile = os.path.join(ck.scratch, "cases.txt")
open(casefile, "w").write("".join(c + "\n" for c in cases))

# ------------------------------------------------------------------------------ run both sides
found = False
drv, dlog = ck.ocaml_driver("C14")
stats = {"D": 0, "S": 0, "C": 0, "P": 0, "L": 0, "Z": 0, "G": 0, "H": 0, "V": 0, "T": 0}
hist = {}
distinct = set()
samples = []


string_obj_reported = False
ref_validated = 0


def string_object_only(a, want):
    """P line differs from the standard only in def[3] / def[4] (the std::string / std::string_view arguments)"""
    fa, fw = a.split(), want.split()
    if len(fa) != len(fw): return False
    for x, y in zip(fa, fw):
        if x.startswith("def=") and y.startswith("def="):
            da, dw = x[4:].split(","), y[4:].split(",")
            if len(da) != 5 or da[:3] != dw[:3]: return False
        elif x != y:
            return False
    return True


def run_model(drv, cases, jobs=4):
    """the extracted model is slow (binary N in OCaml): spread the cases over `jobs` processes, balanced by an
    estimate of the number of compression calls"""
    def cost(c):
        t = c.split()
        if t[0] == "D": return (len(t[1]) // 128 + 2) * (t[2].count("/") + 3)
        if t[0] == "S": return (len(t[1]) // 128 + 2) * 2
        if t[0] == "L": return int(t[2]) // 64 + 2 if t[5] == "1" else 1
        return 1
    load = [0] * jobs
    assign = [[] for _ in range(jobs)]
    for i in sorted(range(len(cases)), key=lambda i: -cost(cases[i])):
        j = load.index(min(load))
        load[j] += cost(cases[i]); assign[j].append(i)
    procs = []
    for j in range(jobs):
        assign[j].sort()
        p = os.path.join(ck.scratch, "model_cases_%d.txt" % j)
        open(p, "w").write("".join(cases[i] + "\n" for i in assign[j]))
        procs.append(subprocess.Popen([drv, p], stdout=subprocess.PIPE, stderr=subprocess.STDOUT, universal_newlines=True))
    merged = ["<missing>"] * len(cases)
    ok = True
    for j, pr_ in enumerate(procs):
        try:
            o, _ = pr_.communicate(timeout=3000)
        except subprocess.TimeoutExpired:
            pr_.kill(); o = ""; ok = False
        ok = ok and pr_.returncode == 0
        for i, l in zip(assign[j], o.splitlines()):
            merged[i] = l
    return ok, merged


if exe is None:
    ck.violation("correspondence harness does not compile against /repo", {"correspondence": "harness/C14/digest_harness.cpp", "log": log[-2500:]}, no_input=True)
else:
    rc1, out1 = verif.sh([exe, casefile], timeout=3000)
    impl = [l for l in out1.splitlines() if l[:2] in ("D ", "S ", "C ", "P ", "L ") or l == "?"]   # (sanitizer text is merged into stdout)
    nmain = len(cases)
    stage_times["main_harness_done"] = round(time.time() - ck.t0, 1)
    if zproc is not None:
        try:
            zo, _ = zproc.communicate(timeout=1200)
        except subprocess.TimeoutExpired:
            zproc.kill(); zo = ""
        zl = [l for l in zo.splitlines() if l.startswith("Z ")]
        if rc1 == 0 and (zproc.returncode != 0 or len(zl) != len(zcases)):
            rc1, out1 = (zproc.returncode or 1), zo
            impl = impl + zl
        elif rc1 == 0:
            impl = impl + zl
        cases = cases + zcases
    if rc1 != 0:
        # sanitizer abort / crash: the harness flushes after every case, so the offender is the next one
        found = True
        bad = None
        for idx in range(max(0, min(len(impl), len(cases)) - 2), len(cases)):
            one = os.path.join(ck.scratch, "one.txt"); open(one, "w").write(cases[idx] + "\n")
            r, o = verif.sh([exe, one], timeout=120)
            if r != 0:
                bad = (cases[idx], o); break
        ck.violation("real digest/SipHash code aborts under ASan/UBSan on a valid input" + (": " + bad[0][:80] if bad else ""),
                     {"case": bad[0] if bad else None, "log_tail": (bad[1] if bad else out1)[-2500:]})
    else:
        # the model may be unavailable (a regenerated table broke a proof file): the search on the implementation
        # against the independent references still runs
        model = (run_model(drv, cases[:nmain])[1] + ["Z skipped"] * (len(cases) - nmain)) if drv is not None else None
        for idx, c in enumerate(cases):
            a = impl[idx].strip() if idx < len(impl) else "<missing>"
            mline = model[idx].strip() if model is not None else None
            b, _, sp = mline.partition(" | ") if mline is not None else (None, None, None)
            kind = c.split()[0]
            stats[kind] += 1
            want = expected_line(c)
            wspec = expected_spec(c)
            if kind in ("D", "S"):
                n = len(unhex(c.split()[1]))
                cls = "len>=990" if n >= 990 else "len%%64=%d" % (n % 64) if n % 64 in (0, 55, 56, 63) else "len%%128=%d" % (n % 128) if n % 128 in (111, 112, 119, 120, 127) else "other"
                hist[kind + ":" + cls] = hist.get(kind + ":" + cls, 0) + 1
                nontrivial = (kind == "D" and carries(c)) or (kind == "S" and n >= 2)
            elif kind in ("L", "Z"):
                n = int(c.split()[2 if kind == "L" else 1])
                cls = "n<2^16" if n < 65535 else "n~2^16" if n <= 65537 else "n<2^20" if n < 1048575 else "n~2^20" if n <= 1048577 else "n>=2^29" if n >= 1 << 29 else "n>2^20"
                hist[kind + ":" + cls] = hist.get(kind + ":" + cls, 0) + 1
                nontrivial = True
                if kind == "Z" or c.split()[5] != "1": b, sp = None, None      # not run on the model
            elif kind == "P":
                n = len(unhex(c.split()[2]))
                hist["P:len%%8=%d" % (n % 8)] = hist.get("P:len%%8=%d" % (n % 8), 0) + 1
                nontrivial = n >= 1
            else:
                hist["C:" + c.split()[1]] = hist.get("C:" + c.split()[1], 0) + 1
                nontrivial = True
            if nontrivial: distinct.add(c)
            if want is not None and a != want and kind == "P" and string_object_only(a, want):
                found = True
                if not string_obj_reported:
                    string_obj_reported = True
                    ck.violation("tlx::siphash(std::string) / siphash(std::string_view) hash the bytes of the string OBJECT (generic value template wins overload resolution), not the message: " + a[a.find("def="):][:120],
                                 {"case": c, "impl": a, "standard": want, "repair": "fixes/C14/02-siphash-std-string-overloads.patch"}, key="siphash-std-string-object-bytes")
            elif want is not None and a != want:
                found = True
                ta, tw = a.replace(":", " ").replace(",", " ").split(), want.replace(":", " ").replace(",", " ").split()
                dif = next(("%s (expected %s)" % (x, y) for x, y in zip(ta, tw) if x != y), a[:120])
                pre = a.split(dif.split()[0])[0].split() if dif.split()[0] in a else []
                ck.violation("implementation result differs from the standard (hashlib / SipHash-2-4 reference) on %s...: %s got %s" % (c[:40], ([p_.split(":")[0] for p_ in pre if p_[:1].isalpha()] or ["?"])[-1], dif[:300]),
                             {"case": c, "impl": a, "standard": want, "replay_cmd": "bin/check C14 --replay <this file>"})
            elif b is not None and a != b:
                ck.violation("implementation differs from the extracted Coq model (correspondence): impl=%s model=%s" % (a[:160], b[:160]),
                             {"correspondence": "harness/C14 vs ocaml/C14_driver", "case": c, "impl": a, "model": b}, no_input=True)
            elif b is not None and wspec is not None and sp != wspec:
                ck.violation("extracted Coq spec differs from the standard's reference implementation: spec=%s reference=%s" % (sp[:160], wspec[:160]),
                             {"theorem_or_correspondence": "H_spec / sip_spec validation against hashlib", "case": c, "spec": sp, "reference": wspec}, no_input=True)
            if kind == "P" and b is not None and a == b and a == want: ref_validated += 1
            if ck.violations >= 3: break
        pick = [0, 4]
        for kind in ("D", "S", "C", "P"):
            pick += [i for i in range(ncorpus, len(cases)) if cases[i].startswith(kind) and (kind != "D" or (carries(cases[i]) and 100 < len(cases[i]) < 400))][:1]
        samples = [{"case": cases[i][:400], "result": impl[i][:400]} for i in pick if i < len(impl)]
    if drv is None and not found:
        ck.violation("extracted model/driver does not build", {"correspondence": "ocaml/C14_driver.ml", "log": dlog[-2500:]}, no_input=True)

stage_times["model_and_compare_done"] = round(time.time() - ck.t0, 1)
# ------------------------------------------------------------------------------ huge-message stage (G / H)
huge_info = {"cases": list(hcases), "reference": "harness/C14/siphash_ref.hpp (C++, from the paper) for SipHash; Python hashlib for the digests",
             "reference_validated_against_model_on": ref_validated}
if hcases:
    if hexe is None:
        ck.violation("huge-message harness does not compile against /repo", {"correspondence": "harness/C14/huge_harness.cpp", "log": hlog[-2500:]}, no_input=True)
    else:
        try:
            ho, _ = hproc.communicate(timeout=2400)
        except subprocess.TimeoutExpired:
            hproc.kill(); ho = ""
        stage_times["huge_process_done"] = round(time.time() - ck.t0, 1)
        _hth.join()
        stage_times["huge_hashlib_done"] = round(time.time() - ck.t0, 1)
        hl = [l for l in ho.splitlines() if l[:2] in ("G ", "H ", "V ")]
        if hproc.returncode != 0 or len(hl) != len(hcases):
            # the stage runs all cases in one process: find the case that kills it
            bad = None
            for c in hcases:
                one = os.path.join(ck.scratch, "hone.txt"); open(one, "w").write(c + "\n")
                r1, o1 = verif.sh([hexe, one], timeout=900)
                if r1 != 0 or not any(l[:2] in ("G ", "H ", "V ") for l in o1.splitlines()):
                    bad = (c, r1, o1); break
            if bad:
                found = True
                ck.violation("real digest/SipHash code crashes (rc=%s, no sanitizer in this stage) on a huge-message case: %s" % (bad[1], bad[0]),
                             {"case": bad[0], "rc": bad[1], "log_tail": bad[2][-1500:], "replay_cmd": "bin/check C14 --replay <this file>"})
            else:
                ck.violation("huge-message harness failed (rc=%s): %s" % (hproc.returncode, ho[-300:]), {"correspondence": "harness/C14/huge_harness.cpp", "log_tail": ho[-2000:]}, no_input=True)
        else:
            for c, l in zip(hcases, hl):
                stats[c[0]] = stats.get(c[0], 0) + 1
                distinct.add(c)
                if c[0] == "G":
                    f = dict(x.split("=") for x in l.split()[1:])
                    if not (f.get("plain") == f.get("sse2") == f.get("disp") == f.get("ref")):
                        found = True
                        ck.violation("SipHash of a message of %s bytes (>= 2^32 - 3) differs from SipHash-2-4 (reference validated against the extracted Coq spec on %d cases of this run): %s" % (c.split()[2], ref_validated, l),
                                     {"case": c, "impl": l, "replay_cmd": "bin/check C14 --replay <this file>"})
                elif c[0] == "V" and l != hexpect.get(c):
                    found = True
                    ck.violation("digest of ONE tlx::string_view of %s bytes (longer than the 2^30-byte pieces of process(string_view)) differs from hashlib over the same position-dependent bytes: impl=%s want=%s" % (c.split()[3], l, hexpect.get(c)),
                                 {"case": c, "impl": l, "standard": hexpect.get(c), "replay_cmd": "bin/check C14 --replay <this file>"})
                else:
                    if l != hexpect.get(c):
                        found = True
                        ck.violation("digest of a message of %s bytes (> 2^32) streamed in chunks differs from hashlib: impl=%s want=%s" % (c.split()[3], l, hexpect.get(c)),
                                     {"case": c, "impl": l, "standard": hexpect.get(c), "replay_cmd": "bin/check C14 --replay <this file>"})
            samples.append({"case": hcases[0], "result": hl[0]})
            if ref_validated == 0 and not found and not ck.replay and any(c[0] == "G" for c in hcases):
                ck.violation("the SipHash reference of the huge stage was not validated against the model in this run", {"correspondence": "siphash_ref.hpp vs extracted sip_spec"}, no_input=True)

# ------------------------------------------------------------------------------ concurrency / object-independence stage (T)
def gen_tcases():
    r = verif.SplitMix64(ck.seed * 104729 + 5)
    out = []
    sizes_pool = [0, 1, 55, 56, 63, 64, 65, 111, 112, 127, 128, 129, 1000, 5000, 20000, 60000, 150000, 200000, 262144]
    for i in range(48 if ck.thorough() else 32):
        n = r.choice(sizes_pool) if r.chance(2, 3) else r.below(70000)
        pat = bytes(r.below(256) for _ in range(251)).hex()
        cuts = sorted(r.below(n + 1) for _ in range(r.below(5)))
        pts = [0] + cuts + [n]
        out.append("T %s %d %s %s" % (pat, n, ",".join(str(pts[j + 1] - pts[j]) for j in range(len(pts) - 1)), bytes(r.below(256) for _ in range(16)).hex()))
    return out


thread_info = {}
tcases = []
if not ck.replay:
    tcases = gen_tcases()
elif replay_case.startswith("TSTAGE"):
    tcases = replay_obj.get("t_cases", [])
if tcases:
    tfile = os.path.join(ck.scratch, "tcases.txt")
    open(tfile, "w").write("".join(c + "\n" for c in tcases))
    nthreads = 4 + (ck.seed % 5)                                  # 4..8 real threads
    tdesc = "TSTAGE seed=%d threads=%d cases=%d" % (ck.seed, nthreads, len(tcases))
    for tag, rounds, envx in (("tasan", 24 if ck.thorough() else 12, {}), ("ttsan", 4, {"TSAN_OPTIONS": "halt_on_error=1 second_deadlock_stack=1"})):
        texe, tlog = _builds[tag]
        if texe is None:
            ck.violation("thread-stage harness (%s) does not compile against /repo" % tag, {"correspondence": "harness/C14/threads_harness.cpp", "log": tlog[-2500:]}, no_input=True)
            continue
        rc_t, to = verif.sh([texe, tfile, str(nthreads), str(rounds)], timeout=1200, env=dict(os.environ, **envx))
        tl = [l for l in to.splitlines() if l.startswith("T ")]
        verdicts = [l for l in to.splitlines() if l[:2] in ("I ", "M ")]
        thread_info[tag] = {"rc": rc_t, "verdicts": verdicts, "threads": nthreads, "rounds": rounds}
        rep = {"case": tdesc, "t_cases": tcases, "build": tag, "replay_cmd": "bin/check C14 --replay <this file>"}
        if "ThreadSanitizer" in to:
            found = True
            m_ = [l.strip() for l in to.splitlines() if "ThreadSanitizer:" in l or l.strip().startswith("#0") or l.strip().startswith("#1 ")]
            ck.violation("unrelated digest objects / siphash calls used on %d threads at once: ThreadSanitizer reports %s" % (nthreads, " | ".join(m_[:4])[:400]),
                         dict(rep, log_tail=to[-3000:]))
            continue
        if rc_t != 0 and not verdicts:
            found = True
            ck.violation("thread-stage harness (%s) aborts (rc=%d): %s" % (tag, rc_t, to[-300:]), dict(rep, log_tail=to[-3000:]))
            continue
        # single-threaded baseline against the standards
        for c, l in zip(tcases, tl):
            t = c.split(); msg = long_msg(t[1], int(t[2])); f = dict(x.split("=") for x in l.split()[1:])
            ok = all(f.get(a_) == hashlib.new(a_, msg).hexdigest() for a_ in ALGOS)
            sips = f.get("sip", "").split(",")
            ok = ok and len(set(sips + [f.get("ref")])) == 1 and (len(msg) > 20000 or sips[0] == "%016x" % sip24(bytes.fromhex(t[4]), msg))
            if not ok:
                found = True
                ck.violation("single-threaded result of a thread-stage case differs from the standard: %s" % l[:300], {"case": "L %s %s %s 0 0" % (t[1], t[2], t[3]), "impl": l})
                break
        if tag == "tasan":
            stats["T"] = len(tl)
            for c in tcases: distinct.add(c)
        for v in verdicts:
            if " FAIL" in v:
                found = True
                what = "two objects of one class fed alternately on ONE thread influence each other" if v.startswith("I ") else \
                       "unrelated objects used on %d threads at once give digests different from the ones they give alone" % nthreads
                ck.violation(what + ": " + v[:400], dict(rep, verdict=v))
        if len(verdicts) != 2 and rc_t == 0:
            ck.violation("thread-stage harness (%s) printed no verdicts" % tag, {"correspondence": "harness/C14/threads_harness.cpp", "log_tail": to[-1500:]}, no_input=True)
    if thread_info.get("tasan", {}).get("verdicts"):
        samples.append({"case": tdesc, "result": " ; ".join(thread_info["tasan"]["verdicts"])})

coqchk = None
if ck.thorough() and pr is not None and pr["ok"] and not ck.replay:
    # independent re-check of the compiled development (translator-heavy property): coqchk must accept every
    # library Properties_C14 depends on and report no axiom
    rcq, outq = verif.sh(["coqchk", "-silent", "-o", "-Q", ".", "TLXV", "TLXV.Properties_C14"], cwd=verif.COQ, timeout=1500)
    coqchk = "ok" if rcq == 0 and "* Axioms: <none>" in outq else "FAILED"
    if coqchk != "ok":
        ck.violation("coqchk rejects the compiled development or reports axioms", {"theorem_or_correspondence": "coqchk TLXV.Properties_C14", "log_tail": outq[-2000:]}, no_input=True)

if translator_error is not None and not found:
    ck.violation("translator could not re-derive the constant tables from /repo: " + translator_error[:300],
                 {"theorem_or_correspondence": "translate/digest_tables.py", "detail": translator_error[-2000:]}, no_input=True)
if pr is not None and not pr["ok"]:
    ck.proof_broken(found)

ck.finish({
    "evaluations": len(cases) + len(hcases) + len(tcases),
    "distinct_nontrivial": len(distinct),
    "rule": "distinct case lines that are non-trivial: D (message x explicit chunkings; all four digests, raw/hex/HEX, helpers with every argument type, constructor/process overloads, argument types and mid-stream copies chosen from the case's variant seed) counts if some chunking leaves a partial block in buf_ between two process() calls; S (all 2- or 3-splits enumerated inside the harness) if |msg| >= 2; C (compression function alone on an arbitrary chaining state); P (siphash_plain, siphash_sse2, dispatching siphash at a given message/key misalignment) if |msg| >= 1; L (long message, one process() call with many whole blocks, curlen_ 0 or not before it; lengths around 2^16 and 2^20; model only where flagged) and Z (2^29 zero bytes in one call) always; G / H (SipHash resp. streamed digests over sparse mappings of 2^32-3 .. 2^32+16 bytes, judged against siphash_ref.hpp -- itself compared with the extracted Coq spec on every P case of the run -- resp. hashlib) always; T (a message + chunking that is hashed alone, interleaved with its neighbour on one thread, and on 4-8 threads at once under ASan and under TSan) always. Every implementation line is compared with Python hashlib / an independent SipHash-2-4, with the extracted Coq model, and the extracted Coq spec with hashlib.",
    "samples": samples,
    "input_distribution": dict(stats, **hist),
    "api_surface": API_SURFACE,
    "huge_cases": huge_info,
    "stage_times_s": stage_times,
    "thread_stage": thread_info,
    "special_digest_bytes": special,
    "tables_translated": sorted(getattr(ck, "c14_tables", {}).keys()),
    "translation_notes": getattr(ck, "c14_translation_notes", {}),
    "coqchk": coqchk if coqchk is not None else "not run in this tier",
}, assumptions=[
    "only DATA is re-parsed from /repo on every run (translate/digest_tables.py; found by shape/content, then by execution, else the standard's value with a note in coverage.translation_notes): round-constant tables, initial values, MD5 order/rotation tables, SHA-2 rotation amounts, hex digits, SipHash constants, rotation amounts, shuffle immediates and shift amounts. Block geometry, padding code, SipHash tail handling and all control structure are hand-modelled and tied by the correspondence run only",
    "H_spec / sip_spec are the standards only as far as validated: official vectors as vm_compute Examples in Coq + hashlib / independent SipHash-2-4 on every generated message",
    "message bit length < 2^64 and every process() size < 2^32 (API type std::uint32_t); process(string_view) with >= 4 GiB is outside the model",
    "x86 rol/ror asm, memcpy/loadu loads and SSE2 intrinsics are modelled by their documented semantics (lanes as pairs of 64-bit words)",
    "extraction: ExtrOcamlBasic only; N/positive/nat/list stay Coq inductives",
])
