#!/usr/bin/env python3
"""C11 — Semaphore and the two thread barriers: Coq theorems over all interleavings of the transition systems
+ trace correspondence (real tlx code under the deterministic scheduler shim vs. the extracted lstep/bstep/sstep)
+ direct property checkers on every real trace + analysis of every rest state (DEADLOCK) of the real code."""
import json, os, re, sys
from concurrent.futures import ThreadPoolExecutor
HERE = os.path.dirname(os.path.abspath(__file__))
sys.path.insert(0, os.path.join(HERE, "..", "lib"))
import verif

# delta + slack beyond size_t: the shipped wait()/try_acquire() compared value_ with the WRAPPED sum (audit finding, repaired in
# /repo ca9b7a2, fixes/C11/02).  The `overflow` family and corpus/C11/overflow_cases.txt keep that regime under test; such
# cases are judged by py_sem_check (big integers) and the rest-state analysis, the model's unary naturals cannot hold them.
ck = verif.Check("C11")
rng = ck.rng
pr = ck.prove()

# ---------------------------------------------------------------- scenario generators
def fmt_call(c):
    return ",".join(str(x) for x in c)

def sem_line(initial, strategy, spur, seed, progs, choices=None, ctor=0):
    head = "sem %d %d %d %d" % (initial, strategy, spur, seed)
    if choices:
        head += " choices=" + choices
    if ctor:
        head += " ctor=%d" % ctor
    return head + " " + " ".join("| " + " ".join(fmt_call(c) for c in p) for p in progs)

def norm_call(tok):
    """call token -> (kind, delta, slack) with the C++ default arguments (delta = 1, slack = 0) filled in"""
    p = tok.split(",")
    k = p[0]
    if k in ("W0", "T0"): return k[0], 1, 0
    if k in ("W1", "T1"): return k[0], int(p[1]), 0
    if k in ("W", "T"): return k, int(p[1]), int(p[2])
    if k == "S": return "S", 1, 0
    if k == "V": return "V", 0, 0
    return "SN", int(p[1]), 0

def api_forms(rng, progs):
    """use the overloads with default arguments where they denote the same call"""
    out = []
    for p in progs:
        q = []
        for c in p:
            if c[0] in ("W", "T") and c[2] == 0:
                if c[1] == 1 and rng.chance(1, 2): q.append((c[0] + "0",)); continue
                if rng.chance(1, 3): q.append((c[0] + "1", c[1])); continue
            q.append(c)
            if rng.chance(1, 10): q.append(("V",))      # racing observer value() after this call
        if rng.chance(1, 10): q.insert(0, ("V",))
        out.append(q)
    return out

def gen_sem(rng):
    """returns (case line, mode).  modes: completable-equal, completable-mixed (any rest state is a violation),
    free-equal, free-mixed (rest states are legitimate unless a blocked waiter's request is covered)."""
    nthr = rng.range(2, 4)
    completable = rng.chance(1, 2)
    mixed = rng.chance(3, 5)
    d0 = rng.range(1, 2)
    family = rng.below(15)            # 0: burst (one signal(n) covers several waiters), 1: large deltas
    large = family == 1
    if family <= 1: completable = True
    def req():
        if large:
            return rng.range(100, 2000), (rng.range(0, 500) if mixed else 0)
        if mixed:
            return rng.range(0, 2) if rng.chance(1, 6) else rng.range(1, 3), rng.range(0, 2)
        return d0, 0
    progs = []
    if completable:
        ncons = rng.range(1, nthr - 1)
        if family == 0:
            nthr = max(nthr, 3); ncons = nthr - 1          # several waiters, one producer
        demand = 0; maxslack = 0
        for t in range(ncons):
            p = []
            for _ in range(rng.range(1, 3)):
                d, s = req()
                if rng.chance(1, 6):
                    p.append(("T", d, s))
                else:
                    p.append(("W", d, s))
                demand += d; maxslack = max(maxslack, s)
            progs.append(p)
        initial = rng.range(0, 2)
        supply_needed = max(0, demand + maxslack - initial)
        nprod = nthr - ncons
        prods = [[] for _ in range(nprod)]
        left = supply_needed
        k = 0
        if family == 0 or large:
            # the whole supply in ONE signal(n): wakes / covers several waiters at once
            prods[0].append(("SN", left)); left = 0
        while left > 0 or any(len(p) == 0 for p in prods):
            p = prods[k % nprod]; k += 1
            if len(p) >= 4 and left > 0:
                p.append(("SN", left)); left = 0; continue
            if rng.chance(1, 2) or left <= 1:
                p.append(("S",)); left -= 1
            else:
                n = rng.range(1, max(1, min(3, left))); p.append(("SN", n)); left -= n
        progs += prods
        # rotate so that producers are not always the last threads
        r = rng.below(nthr); progs = progs[r:] + progs[:r]
    else:
        initial = rng.range(0, 3)
        for t in range(nthr):
            p = []
            for _ in range(rng.range(1, 3)):
                r = rng.below(10)
                if r < 3: p.append(("S",))
                elif r < 5: p.append(("SN", rng.range(0, 3)))
                elif r < 9:
                    d, s = req(); p.append(("W", d, s))
                else:
                    d, s = req(); p.append(("T", d, s))
            progs.append(p)
    # spurious wake-ups only where the scenario always completes (a legitimate rest state never quiesces under them)
    spur = 1 if (completable and rng.chance(1, 2)) else 0
    strategy = rng.below(2)
    seed = rng.next() % 1000000007
    mode = ("completable-" if completable else "free-") + ("mixed" if mixed else "equal")
    if family == 0: mode = "burst-signal-n"
    if large: mode = "large-deltas"
    ctor = rng.choice([0, 0, 1, 2, 3] if initial == 0 else [0, 0, 2, 3])
    return sem_line(initial, strategy, spur, seed, api_forms(rng, progs), ctor=ctor), mode

def gen_overflow(rng):
    """delta + slack does not fit size_t (or nearly): by the property a wait blocks / try_acquire fails unless the value
    really covers delta + slack.  Judged by py_sem_check and the rest-state analysis (the model's naturals are unary)."""
    M = 1 << 64
    bigs = [M - 1, M - 2, M - 3, 1 << 63, (1 << 63) + 1]
    def req():
        r = rng.below(4)
        if r == 0: return rng.choice(bigs), rng.range(1, 3)          # delta huge, sum wraps
        if r == 1: return rng.range(0, 3), rng.choice(bigs)          # slack huge, sum wraps (or just fits)
        if r == 2: return 1 << 63, rng.choice([1 << 63, (1 << 63) + 1])   # sum wraps to 0 / 1
        return rng.choice(bigs), 0                                       # no wrap, but far above any value
    nthr = rng.range(1, 3)
    progs = []
    for t in range(nthr):
        p = []
        for _ in range(rng.range(1, 2)):
            r = rng.below(10)
            if r < 3: p.append(("S",))
            elif r < 4: p.append(("SN", rng.range(0, 3)))
            else:
                d, sl = req(); p.append(("T", d, sl))
        if rng.chance(1, 2):
            d, sl = req(); p.append(("W", d, sl))                       # blocks for good: last call of the thread
        progs.append(p)
    return sem_line(rng.range(0, 5), rng.below(2), 0, rng.next() % 1000000007, progs), "overflow"

def gen_bar(rng, kind):
    n = rng.range(1, 4)
    g = 3 if rng.chance(3, 4) else rng.range(1, 4)
    gens = [g] * n
    mode = "%s-n%d" % (kind, n)
    if kind == "bm" and n >= 2 and rng.chance(1, 12):
        gens[rng.below(n)] = max(0, g - 1 - rng.below(2)); mode = "bm-unequal"
    yld = rng.below(3)                 # 0 wait, 1 wait_yield, 2 mixed callers within a generation
    spur = rng.below(2) if (kind == "bm" and mode != "bm-unequal") else 0
    strategy = rng.below(2)
    seed = rng.next() % 1000000007
    sil = "".join("1" if rng.chance(1, 3) else "0" for _ in range(max(gens)))     # generations crossed without lambda
    opts = (" sil=" + sil) if "1" in sil else ""
    if kind == "bs" and rng.chance(1, 2): opts += " stepq=1"
    if kind == "bs" and n >= 2 and rng.chance(1, 30):
        # a participant leaves early: the others busy-wait for good; bounded by an explicit step bound
        gens[rng.below(n)] = max(0, g - 1 - rng.below(2)); mode = "bs-unequal"; opts += " maxsteps=3000"
    return "%s %d %d %d %d%s | %s" % (kind, yld, strategy, spur, seed, opts, " ".join(map(str, gens))), mode

# ---------------------------------------------------------------- interpretation of a case
def parse_case(line):
    w = line.split()
    head = []
    i = 0
    while i < len(w) and w[i] != "|":
        head.append(w[i]); i += 1
    blocks = []
    for x in w[i:]:
        if x == "|": blocks.append([])
        else: blocks[-1].append(x)
    return head, blocks

def sem_completable(head, blocks):
    """producers/consumers separated and supply >= total delta + max slack: no rest state may have a blocked waiter"""
    initial = int(head[1]); supply = initial; demand = 0; maxslack = 0
    for b in blocks:
        kinds = set(norm_call(c)[0] for c in b)
        if kinds & {"S", "SN"} and kinds & {"W", "T"}:
            return False
        for c in b:
            k, d, sl = norm_call(c)
            if k in ("S", "SN"): supply += d
            else: demand += d; maxslack = max(maxslack, sl)
    return supply >= demand + maxslack

def fields(line):
    d = {}
    for tok in line.split():
        if tok == "TRACE": break
        if "=" in tok:
            k, v = tok.split("=", 1); d[k] = v
    return d

def state_of(hline):
    """DEADLOCK line of the harness -> (why, value/step, {thread: (pos, inside)}, choices)"""
    w = hline.split()
    why = fields(hline).get("why", "?")
    val = None; thr = {}; choices = ""
    if "STATE" in w:
        i = w.index("STATE") + 1
        while i < len(w) and w[i] not in ("CHOICES", "TRACE"):
            tok = w[i]; i += 1
            if tok.startswith("value=") or tok.startswith("step="): val = int(tok.split("=")[1])   # step=-1: spin barrier (not readable in the hook)
            elif tok.startswith("t") and ":" in tok:
                a, b, c = tok[1:].split(":"); thr[int(a)] = (int(b), int(c))
    if "CHOICES" in w:
        i = w.index("CHOICES") + 1
        if i < len(w) and w[i] != "TRACE": choices = w[i]
    return why, val, thr, choices

def with_choices(case, choices):
    head, blocks = parse_case(case)
    head = [h for h in head if not h.startswith("choices=")]
    if choices: head.insert(5, "choices=" + choices)
    return " ".join(head) + " " + " ".join("| " + " ".join(b) for b in blocks)

def hopt(c, key):
    for tok in parse_case(c)[0]:
        if tok.startswith(key + "="): return tok.split("=", 1)[1]
    return None

M64 = 1 << 64
def py_sem_check(initial, blocks, trace):
    """sem_check (coq/C11/Sem.v) on unbounded integers: critical sections linearised by their unlock events; every
    returned value, wait threshold and try_acquire outcome must agree with the token count recomputed from the calls"""
    v = initial
    progs = [[norm_call(x) for x in b if x != "V"] for b in blocks]
    pend = {}
    for tok in trace.split():
        p = tok.split(":")
        t = int(p[0])
        if t == 0: continue
        if p[1] == "U":
            if not progs[t - 1]: return False, "unlock without a call (thread %d)" % t
            k, d, sl = progs[t - 1].pop(0)
            if k in ("S", "SN"): v += d; pend[t] = v
            elif k == "W":
                if d + sl > v: return False, "wait(%d,%d) of thread %d returned although the value is %d" % (d, sl, t, v)
                v -= d; pend[t] = v
            else:
                if d + sl <= v: v -= d; pend[t] = 1
                else: pend[t] = 0
        elif p[1] == "US" and p[2] == "ret":
            got = int(p[4]) % M64
            if t not in pend: return False, "return without a completed call (thread %d)" % t
            if got != pend[t] % M64:
                return False, "call %s of thread %d returned %d, the token count says %d" % (p[3], t, got, pend[t])
            del pend[t]
    return True, ""

# ---------------------------------------------------------------- cases
corpus = [l.strip() for l in open(os.path.join(verif.VERIF, "corpus", "C11", "cases.txt")) if l.strip() and not l.startswith("#")]
corpus += [l.strip() for l in open(os.path.join(verif.VERIF, "corpus", "C11", "overflow_cases.txt")) if l.strip() and not l.startswith("#")]
cases = list(corpus); modes = ["corpus"] * len(corpus)
tsan_replay = None
if ck.replay:
    rc_ = json.load(open(ck.replay))["case"]
    if rc_.startswith("tsan_stress"):
        tsan_replay = dict(kv.split("=") for kv in rc_.split()[1:]); cases = []; modes = []
    else:
        cases = [rc_]; modes = ["replay"]
else:
    NS, NB = (40000, 12000) if ck.thorough() else (2600, 700)
    for k in range(NS):
        c, m = gen_sem(rng); cases.append(c); modes.append(m)
    for k in range(NB):
        c, m = gen_bar(rng, "bm"); cases.append(c); modes.append(m)
        c, m = gen_bar(rng, "bs"); cases.append(c); modes.append(m)
    for k in range(NS // 20):
        c, m = gen_overflow(rng); cases.append(c); modes.append(m)
casefile = os.path.join(ck.scratch, "cases.txt")
open(casefile, "w").write("\n".join(cases) + "\n")

# ---------------------------------------------------------------- run both sides
SHIM = os.path.join(verif.VERIF, "harness", "sched", "verif_sched.hpp")
found = False
# ---- real-thread stage under ThreadSanitizer (no shim): memory ordering, which the sequentially consistent Coq models cannot
# express.  -DNDEBUG: an assert() reading an atomic with seq_cst would itself act as an acquire and hide a weakened order.
# Built and run in a worker thread, concurrently with the trace stage.
TSAN_FLAGS = ["-std=c++17", "-O1", "-g", "-w", "-fsanitize=thread", "-DNDEBUG"]
def tsan_stage():
    exe_t, log_t = ck.build_cpp("c11_tsan", ["harness/C11/tsan_stress.cpp"], TSAN_FLAGS)
    if exe_t is None:
        return {"build_log": log_t, "runs": []}
    if tsan_replay: plans = [(tsan_replay["rounds"], tsan_replay["seed"], tsan_replay.get("scenario"), tsan_replay.get("round"))]
    elif ck.replay: plans = []
    else:
        trng = verif.SplitMix64(ck.seed * 7919 + 11)
        plans = [(450 if ck.thorough() else 90, str(1 + trng.below(1 << 30)), None, None) for _ in range(4 if ck.thorough() else 2)]
    runs = []
    for rounds, sd, osc, ornd in plans:
        cmd = [exe_t, str(rounds), sd] + ([osc, ornd] if osc not in (None, "?") else [])
        rct, outt = verif.sh(cmd, timeout=600 if ck.thorough() else 150, env=dict(os.environ, TSAN_OPTIONS="halt_on_error=0 report_signal_unsafe=0"))
        runs.append({"rounds": rounds, "seed": sd, "scenario": osc, "rc": rct, "out": outt})
        if "WARNING: ThreadSanitizer" in outt or "\nBAD " in "\n" + outt: break
    return {"build_log": None, "runs": runs}
pool = ThreadPoolExecutor(max_workers=2)
f_tsan = pool.submit(tsan_stage)
exe, log = ck.build_cpp("c11_harness", ["harness/C11/sync_harness.cpp"], extra=["-include", SHIM])
drv, dlog = ck.ocaml_driver("C11")
stats = {}
distinct = set()
samples = []
rest_states = 0
traces_ok = 0
skipped = 0
corr_breaks = []      # (what, replay): impl != model without a property violation on that case; reported only if no violating input is found
def corr_break(what, replay):
    corr_breaks.append((what, replay))
if exe is None:
    ck.violation("correspondence harness does not compile against /repo", {"correspondence": "harness/C11/sync_harness.cpp", "log": log[-2000:]}, no_input=True)
elif drv is None:
    ck.violation("extracted model/driver does not build", {"correspondence": "ocaml/C11_driver.ml", "log": dlog[-2000:]}, no_input=True)
else:
    # leaks: a DEADLOCK exit leaves by _exit; keep the framework's other sanitizer options
    asan = os.environ.get("ASAN_OPTIONS", "")
    env = dict(os.environ, ASAN_OPTIONS=(asan + ":" if asan else "") + "detect_leaks=0")
    # time budget: a normal quick run takes ~25 s; the harness' own watchdog kills a case after 10 s without progress
    # (HANG line) and gives up after 3 hangs / 3 step-bound exits, so a hanging component costs about a minute
    T_HARNESS = 900 if ck.thorough() else 240
    rc1, out1 = verif.sh([exe, casefile], timeout=T_HARNESS, env=env)
    impl = [l for l in out1.splitlines() if l.split(" ", 1)[0] in ("OK", "DEADLOCK", "BADCASE", "CRASH", "SKIPPED", "HANG")]
    outfile = os.path.join(ck.scratch, "impl.txt")
    open(outfile, "w").write("\n".join(impl) + "\n")
    rc2, out2 = verif.sh([drv, casefile, outfile], timeout=T_HARNESS)
    model = out2.splitlines()
    if rc1 != 0 or len(impl) < len(cases) or any(l.startswith("CRASH") for l in impl):
        found = True
        idx = min(len(impl), len(cases)) - 1 if any(l.startswith("CRASH") for l in impl) else min(len(impl), len(cases) - 1)
        idx = max(idx, 0)
        one = os.path.join(ck.scratch, "one.txt"); open(one, "w").write(cases[idx] + "\n")
        r, o = verif.sh([exe, one], timeout=120, env=env)
        ck.violation("real Semaphore/barrier code crashes (ASan/UBSan or abnormal exit) under the scheduler shim",
                     {"case": cases[idx], "log_tail": (o if r != 0 else out1)[-2500:]})
    else:
        for idx, c in enumerate(cases):
            a = impl[idx]; b = model[idx] if idx < len(model) else "SKIP missing"
            mode = modes[idx]; stats[mode] = stats.get(mode, 0) + 1
            head, blocks = parse_case(c)
            kind = head[0]
            fa = fields(a); fb = fields(b)
            trace = a.split(" TRACE ", 1)[1] if " TRACE " in a else ""
            nontrivial = (" WB:" in trace or ":WB:" in trace) or (kind == "bs" and len(blocks[0]) > 1)
            if nontrivial:
                distinct.add(hash(kind + trace))
            if a.startswith("SKIPPED"):
                skipped += 1; continue
            if a.startswith("HANG"):
                found = True
                ck.violation("real code hangs under the scheduler (%s): a thread blocked outside the shim or an endless loop without scheduling point" % a[:60],
                             {"case": c, "impl": a})
                if ck.violations >= 3: break
                continue
            big = b.startswith("SKIP bignum")
            if big:
                # arguments beyond the model's unary naturals (overflow family): the verdict comes from the big-integer checker
                okb, whyb = py_sem_check(int(head[1]), blocks, trace)
                if not okb:
                    found = True
                    ck.violation("Semaphore with huge delta/slack violates the property: %s" % whyb, {"case": c, "impl": a[:1500]}, key="sem-delta-slack-overflow")
                    if ck.violations >= 3: break
                    continue
                if a.startswith("OK"):
                    traces_ok += 1; continue
            if a.startswith("BADCASE") or (b.startswith("SKIP") and not big):
                ck.violation("case not understood by harness/driver: %s / %s" % (a[:80], b[:80]), {"case": c, "correspondence": "case format"}, no_input=True)
                break
            if a.startswith("OK"):
                if b.startswith("REJECT"):
                    # the real trace is not a trace of the model
                    if fb.get("check") == "0":
                        found = True
                        ck.violation("real trace violates the property (direct checker) and is rejected by the model: %s" % b[:160],
                                     {"case": c, "impl": a[:3000], "model": b})
                    else:
                        corr_break("trace correspondence broken: the real event trace is not accepted by the Coq model (%s)" % b[:160],
                                     {"case": c, "correspondence": "lstep/bstep/sstep vs real trace", "impl": a[:3000], "model": b})
                    if ck.violations >= 3: break
                    continue
                if fb.get("check") != "1":
                    found = True
                    ck.violation("real trace violates the property (direct checker %s): returned values / release order" %
                                 ("sem_check" if kind == "sem" else "bar_check"), {"case": c, "impl": a[:3000], "model": b})
                    if ck.violations >= 3: break
                    continue
                traces_ok += 1
                if not b.startswith("OK") or fa.get("final") != fb.get("final") or fb.get("alldone") != "1":
                    corr_break("trace correspondence broken: final state differs (impl %s, model %s)" % (a[:60], b[:100]),
                                 {"case": c, "correspondence": "final state", "impl": a[:3000], "model": b})
                    if ck.violations >= 3: break
                continue
            # ---- a rest state of the real code
            rest_states += 1
            why, val, thr, choices = state_of(a)
            replay_case = with_choices(c, choices)
            if not why.startswith("no_thread_enabled") and kind == "bs" and hopt(c, "maxsteps") and len(set(int(x) for x in blocks[0])) > 1:
                # spin barrier whose participants cross different numbers of generations: the counterpart of a rest state is
                # "only busy-loop iterations until the step bound"; legitimate iff every thread still inside waits in a
                # generation that some participant never enters, and the (long) trace is a trace of the model
                gens = [int(x) for x in blocks[0]]
                bad = [t for t, (pos, inside) in thr.items() if inside and pos < min(gens)]
                if bad:
                    found = True
                    ck.violation("spin barrier: thread(s) %s still inside a generation that all participants enter when the step bound is hit" % bad,
                                 {"case": c, "impl": a[:600]})
                elif b.startswith("REJECT") or fb.get("check") != "1":
                    if fb.get("check") == "0":
                        found = True
                        ck.violation("real trace violates the property (bar_check): %s" % b[:160], {"case": c, "impl": a[:600], "model": b})
                    else:
                        corr_break("trace correspondence broken (spin barrier, unequal generations): %s" % b[:160],
                                   {"case": c, "correspondence": "sstep vs real trace", "impl": a[:600], "model": b})
                if ck.violations >= 3: break
                continue
            if not why.startswith("no_thread_enabled"):
                found = True
                ck.violation("real code does not terminate within the step bound (%s): livelock" % why, {"case": c, "impl": a[:600]})
                if ck.violations >= 3: break
                continue
            if kind == "sem":
                stranded = []; blocked = []
                for t, (pos, inside) in sorted(thr.items()):
                    if inside:
                        call = norm_call(blocks[t - 1][pos])
                        blocked.append("%d:%d" % (t, sum(1 for x in blocks[t - 1][:pos] if x != "V")))
                        if call[0] != "W" or call[1] + call[2] <= val:
                            stranded.append(t)
                if stranded:
                    found = True
                    ck.violation("Semaphore came to rest with thread(s) %s blocked in wait although value_=%d covers the request" % (stranded, val),
                                 {"case": replay_case, "impl": a[:3000], "stranded_threads": stranded, "value": val},
                                 key="sem-stranded:" + " ".join(" ".join(x) for x in blocks))
                    if ck.violations >= 3: break
                    continue
                if sem_completable(head, blocks):
                    found = True
                    ck.violation("Semaphore deadlocks in a scenario whose token supply covers every request (value_=%d, blocked %s)" % (val, blocked),
                                 {"case": replay_case, "impl": a[:3000]})
                    if ck.violations >= 3: break
                    continue
                if big: continue
                if b.startswith("REJECT"):
                    # the real trace is not a trace of the model
                    if fb.get("check") == "0":
                        found = True
                        ck.violation("real trace violates the property (direct checker) and is rejected by the model: %s" % b[:160],
                                     {"case": c, "impl": a[:3000], "model": b})
                    else:
                        corr_break("trace correspondence broken: the real event trace is not accepted by the Coq model (%s)" % b[:160],
                                     {"case": c, "correspondence": "lstep/bstep/sstep vs real trace", "impl": a[:3000], "model": b})
                    if ck.violations >= 3: break
                    continue
                if fb.get("check") != "1":
                    found = True
                    ck.violation("real trace violates the property (direct checker %s): returned values / release order" %
                                 ("sem_check" if kind == "sem" else "bar_check"), {"case": c, "impl": a[:3000], "model": b})
                    if ck.violations >= 3: break
                    continue
                okm = b.startswith("DEADLOCK") and fb.get("quiescent") == "1" and fb.get("final") == str(val) and \
                    fb.get("blocked", "") == ",".join(blocked) and fb.get("stranded", "") == ""
                if not okm:
                    corr_break("trace correspondence broken at a rest state: impl value=%s blocked=%s, model %s" % (val, blocked, b[:120]),
                                 {"case": replay_case, "correspondence": "rest state", "impl": a[:3000], "model": b})
                    if ck.violations >= 3: break
            else:
                gens = [int(x) for x in blocks[0]]
                if len(set(gens)) == 1:
                    found = True
                    ck.violation("barrier deadlocks although all %d participants cross the same number of generations" % len(gens),
                                 {"case": replay_case, "impl": a[:3000]})
                    if ck.violations >= 3: break
                    continue
                # unequal generation counts: a legitimate rest state; every blocked thread must wait in a generation
                # that not all participants enter
                blocked = ["%d:%d" % (t, pos) for t, (pos, inside) in sorted(thr.items()) if inside]
                bad = [t for t, (pos, inside) in thr.items() if inside and pos < min(gens)]
                if bad:
                    found = True
                    ck.violation("barrier came to rest with thread(s) %s blocked in a generation all participants enter" % bad,
                                 {"case": replay_case, "impl": a[:3000]})
                    if ck.violations >= 3: break
                    continue
                if b.startswith("REJECT"):
                    # the real trace is not a trace of the model
                    if fb.get("check") == "0":
                        found = True
                        ck.violation("real trace violates the property (direct checker) and is rejected by the model: %s" % b[:160],
                                     {"case": c, "impl": a[:3000], "model": b})
                    else:
                        corr_break("trace correspondence broken: the real event trace is not accepted by the Coq model (%s)" % b[:160],
                                     {"case": c, "correspondence": "lstep/bstep/sstep vs real trace", "impl": a[:3000], "model": b})
                    if ck.violations >= 3: break
                    continue
                if fb.get("check") != "1":
                    found = True
                    ck.violation("real trace violates the property (direct checker %s): returned values / release order" %
                                 ("sem_check" if kind == "sem" else "bar_check"), {"case": c, "impl": a[:3000], "model": b})
                    if ck.violations >= 3: break
                    continue
                okm = b.startswith("DEADLOCK") and fb.get("quiescent") == "1" and fb.get("blocked", "") == ",".join(blocked)
                if not okm:
                    corr_break("trace correspondence broken at a barrier rest state: impl blocked=%s, model %s" % (blocked, b[:120]),
                                 {"case": replay_case, "correspondence": "rest state", "impl": a[:3000], "model": b})
                    if ck.violations >= 3: break
        pick = [0, len(corpus), len(corpus) + 1, len(cases) - 2, len(cases) - 1]
        samples = [{"case": cases[i], "impl": impl[i][:400], "model": model[i] if i < len(model) else None} for i in sorted(set(pick)) if 0 <= i < len(impl)]

# ---------------------------------------------------------------- real threads under ThreadSanitizer: collect
SCEN = {"0": "ThreadBarrierMutex wait(lambda)+wait()", "1": "ThreadBarrierMutex wait_yield(lambda)+wait_yield()",
        "2": "ThreadBarrierSpin wait(lambda)+wait()", "3": "ThreadBarrierSpin wait_yield(lambda)+wait_yield()",
        "4": "ThreadBarrierMutex mixed wait/wait_yield", "5": "ThreadBarrierSpin mixed wait/wait_yield",
        "6": "Semaphore signal()/wait() ping-pong", "7": "Semaphore signal(n) to several waiters", "8": "Semaphore try_acquire polling"}
ts = f_tsan.result(); pool.shutdown()
tsan_rounds = 0; tsan_runs = []; tsan_scen = {}
if ts["build_log"] is not None:
    ck.violation("ThreadSanitizer stress program does not compile against /repo", {"correspondence": "harness/C11/tsan_stress.cpp (-fsanitize=thread -DNDEBUG)", "log": ts["build_log"][-2000:]}, no_input=True)
for run in ts["runs"]:
    outt = run["out"]; rounds = run["rounds"]; sd = run["seed"]
    done_r = [l.split() for l in outt.splitlines() if l.startswith("R ")]
    for f in done_r: tsan_scen[SCEN.get(f[1], f[1])] = tsan_scen.get(SCEN.get(f[1], f[1]), 0) + 1
    tsan_rounds += len(done_r); tsan_runs.append({"rounds": rounds, "seed": sd, "completed": len(done_r), "rc": run["rc"]})
    i = outt.find("WARNING: ThreadSanitizer")
    badl = [l for l in outt.splitlines() if l.startswith("BAD ")]
    if i >= 0:
        found = True
        m = re.findall(r"^ROUND (\d+) (\d+) (\d+) (\d+)", outt[:i], flags=re.M)
        scn, rnd_, thr_, gens_ = m[-1] if m else ("?", "?", "?", "?")
        ck.violation("ThreadSanitizer reports a data race on plain data handed through the barrier / the semaphore (real threads): %s, round %s, %s threads, %s generations -- a crossing / a token does not order memory" % (SCEN.get(scn, scn), rnd_, thr_, gens_),
                     {"case": "tsan_stress rounds=%s seed=%s scenario=%s round=%s" % (rounds, sd, scn, rnd_), "threads": thr_, "report": outt[i:i + 3500],
                      "replay_cmd": "bin/check C11 --replay <this file>  (or: g++ -std=c++17 -O1 -g -fsanitize=thread -DNDEBUG -I/repo harness/C11/tsan_stress.cpp -lpthread; ./a.out %s %s %s %s)" % (rounds, sd, scn, rnd_)})
    if badl:
        found = True
        f = badl[0].split(None, 4)
        ck.violation("real-thread run: stale value after a barrier crossing / a semaphore hand-over: " + badl[0],
                     {"case": "tsan_stress rounds=%s seed=%s scenario=%s round=%s" % (rounds, sd, f[1], f[2]), "threads": f[3], "all_bad": badl[:10]})
    if i < 0 and not badl and (run["rc"] != 0 or (run["scenario"] in (None, "?") and len(done_r) != int(rounds))):
        found = True
        m = re.findall(r"^ROUND (\d+) (\d+) (\d+) (\d+)", outt, flags=re.M)
        scn, rnd_ = (m[-1][0], m[-1][1]) if m else ("?", "?")
        ck.violation("real-thread stress program failed or hung (rc=%d, %d of %s rounds; last round: %s round %s)" % (run["rc"], len(done_r), rounds, SCEN.get(scn, scn), rnd_),
                     {"case": "tsan_stress rounds=%s seed=%s scenario=%s round=%s" % (rounds, sd, scn, rnd_), "log_tail": outt[-2500:]})

# impl != model on some cases: if the search above produced a property-violating input, that is the report;
# otherwise name the correspondence and the first disagreeing cases (decision rule 3)
if corr_breaks and not found:
    for what, replay in corr_breaks[:2]:
        ck.violation(what, replay, no_input=True)
    found = True
if pr is not None and not pr["ok"]:
    ck.proof_broken(found)

# ---------------------------------------------------------------- public API surface and how often this run exercised it
def count(pred):
    return sum(1 for c in cases if pred(c))
def calls_of(c):
    h, b = parse_case(c)
    return [x for blk in b for x in blk] if h[0] == "sem" else []
def is_bar(c, k): return c.split()[0] == k
api_surface = [
 {"api": "Semaphore(size_t initial_value)", "called": True, "cases": count(lambda c: c.startswith("sem") and hopt(c, "ctor") is None), "observed": "initial value enters every returned value (model init)"},
 {"api": "Semaphore() [default initial_value = 0]", "called": True, "cases": count(lambda c: hopt(c, "ctor") == "1"), "observed": "as above, initial 0"},
 {"api": "Semaphore(Semaphore&&)", "called": True, "cases": count(lambda c: hopt(c, "ctor") == "2"), "observed": "moved-into semaphore is the one under test: its value must equal the source's initial value"},
 {"api": "Semaphore::operator=(Semaphore&&)", "called": True, "cases": count(lambda c: hopt(c, "ctor") == "3"), "observed": "Semaphore(7) overwritten by move assignment from Semaphore(initial), then used"},
 {"api": "Semaphore(const Semaphore&) / operator=(const Semaphore&)", "called": False, "cases": 0, "observed": "deleted in the source (non-copyable): nothing to call"},
 {"api": "size_t signal()", "called": True, "cases": count(lambda c: "S" in calls_of(c)), "observed": "returned value compared with the model (ORet) and with sem_check"},
 {"api": "size_t signal(size_t delta)", "called": True, "cases": count(lambda c: any(x.startswith("SN,") for x in calls_of(c))), "observed": "returned value compared; delta = 0: %d cases; one signal(n) covering several waiters (burst family): %d cases" % (count(lambda c: "SN,0" in calls_of(c)), stats.get("burst-signal-n", 0))},
 {"api": "size_t wait(size_t delta, size_t slack)", "called": True, "cases": count(lambda c: any(x.startswith("W,") for x in calls_of(c))), "observed": "returned value compared; delta = 0: %d cases; deltas 100..2000: %d cases" % (count(lambda c: any(x.startswith("W,0,") for x in calls_of(c))), stats.get("large-deltas", 0))},
 {"api": "size_t wait(size_t delta) [slack = 0]", "called": True, "cases": count(lambda c: any(x.startswith("W1,") for x in calls_of(c))), "observed": "model call CWait delta 0: a changed default is a mismatch"},
 {"api": "size_t wait() [delta = 1, slack = 0]", "called": True, "cases": count(lambda c: "W0" in calls_of(c)), "observed": "model call CWait 1 0"},
 {"api": "bool try_acquire(size_t delta, size_t slack)", "called": True, "cases": count(lambda c: any(x.startswith("T,") for x in calls_of(c))), "observed": "returned bool compared with the model and sem_check"},
 {"api": "bool try_acquire(size_t delta) [slack = 0]", "called": True, "cases": count(lambda c: any(x.startswith("T1,") for x in calls_of(c))), "observed": "model call CTry delta 0"},
 {"api": "bool try_acquire() [delta = 1, slack = 0]", "called": True, "cases": count(lambda c: "T0" in calls_of(c)), "observed": "model call CTry 1 0"},
 {"api": "size_t Semaphore::value() const", "called": True, "cases": count(lambda c: c.startswith("sem")), "observed": "read at the end of every run and in every rest state (compared with the model's value); as a racing observer from worker threads (call V, %d cases): the value read must be the model's value adjusted by the owner's already executed update" % count(lambda c: "V" in calls_of(c))},
 {"api": "ThreadBarrierMutex(size_t thread_count)", "called": True, "cases": count(lambda c: is_bar(c, "bm")), "observed": "thread_count 1: %d cases" % stats.get("bm-n1", 0)},
 {"api": "ThreadBarrierMutex::wait(Lambda)", "called": True, "cases": count(lambda c: is_bar(c, "bm") and c.split()[1] in ("0", "2")), "observed": "action notes itself (scheduling point inside the lambda)"},
 {"api": "ThreadBarrierMutex::wait() [NoOperation]", "called": True, "cases": count(lambda c: is_bar(c, "bm") and c.split()[1] in ("0", "2") and hopt(c, "sil") is not None), "observed": "generations listed in sil=: model takes the silent last-arriver step (BLocked/ONotifyAll)"},
 {"api": "ThreadBarrierMutex::wait_yield(Lambda)", "called": True, "cases": count(lambda c: is_bar(c, "bm") and c.split()[1] in ("1", "2")), "observed": "forwards to wait(lambda): same model; mixed callers within a generation (ymode 2): %d cases" % count(lambda c: is_bar(c, "bm") and c.split()[1] == "2")},
 {"api": "ThreadBarrierMutex::wait_yield() [NoOperation]", "called": True, "cases": count(lambda c: is_bar(c, "bm") and c.split()[1] in ("1", "2") and hopt(c, "sil") is not None), "observed": "as wait()"},
 {"api": "size_t ThreadBarrierMutex::step() const", "called": True, "cases": count(lambda c: is_bar(c, "bm")), "observed": "read at the end of every run, compared with the model's step_ (plain unsynchronised read: not called concurrently)"},
 {"api": "ThreadBarrierSpin(size_t thread_count)", "called": True, "cases": count(lambda c: is_bar(c, "bs")), "observed": "thread_count 1: %d cases" % stats.get("bs-n1", 0)},
 {"api": "ThreadBarrierSpin::wait(Lambda)", "called": True, "cases": count(lambda c: is_bar(c, "bs") and c.split()[1] in ("0", "2")), "observed": "busy loop = self-loop load events"},
 {"api": "ThreadBarrierSpin::wait() [NoOperation]", "called": True, "cases": count(lambda c: is_bar(c, "bs") and c.split()[1] in ("0", "2") and hopt(c, "sil") is not None), "observed": "model: silent action right after waiting_.store(0)"},
 {"api": "ThreadBarrierSpin::wait_yield(Lambda)", "called": True, "cases": count(lambda c: is_bar(c, "bs") and c.split()[1] in ("1", "2")), "observed": "yield events between the loads; mixed wait/wait_yield callers within a generation (ymode 2): %d cases" % count(lambda c: is_bar(c, "bs") and c.split()[1] == "2")},
 {"api": "ThreadBarrierSpin::wait_yield() [NoOperation]", "called": True, "cases": count(lambda c: is_bar(c, "bs") and c.split()[1] in ("1", "2") and hopt(c, "sil") is not None), "observed": "as wait()"},
 {"api": "size_t ThreadBarrierSpin::step() const", "called": True, "cases": count(lambda c: is_bar(c, "bs")), "observed": "end of every run; with stepq=1 (%d cases) also by every thread after each crossing: the atomic load and its value are events the model must accept" % count(lambda c: hopt(c, "stepq") == "1")},
 {"api": "action lambda throwing", "called": False, "cases": 0, "observed": "not documented by either barrier (mutex barrier would leave step_ flipped and waiters un-notified): outside the property"},
]

ck.finish({
    "correspondence_disagreements": len(corr_breaks),
    "api_surface": api_surface,
    "evaluations": len(cases) - skipped + tsan_rounds,
    "tsan_rounds": tsan_rounds, "tsan_runs": tsan_runs, "tsan_scenarios": tsan_scen,
    "distinct_nontrivial": len(distinct),
    "traces_validated_against_impl": traces_ok + rest_states,
    "rest_states_analysed": rest_states,
    "rule": "each case = one scenario (semaphore: initial value + per-thread call lists of signal()/signal(n)/wait(d,s)/try_acquire(d,s), 2-4 threads, equal or mixed delta/slack, 'completable' producer/consumer scenarios where any rest state is a violation and free scenarios where the rest state is analysed; barriers: n=1..4 threads x 1..4 generations, both classes, wait and wait_yield) run ONCE on the real tlx code under the deterministic scheduler with a PRNG schedule (uniform or sticky; spurious wake-ups on for half of the always-completable semaphore runs and half of the equal-generation mutex-barrier runs). The logged event trace is folded through the extracted Coq transition system (every event, atomic value, notify choice and returned value must be accepted), the direct checker (sem_check / bar_check) is evaluated on it, and every DEADLOCK exit is analysed from the component state printed by the on_deadlock hook. non-trivial = at least one thread blocked on the condition variable (a WB event) or, for the spin barrier, at least 2 participants; distinct = distinct (kind, event trace). In addition a real-thread stage (harness/C11/tsan_stress.cpp, no shim, -fsanitize=thread -DNDEBUG, tsan_rounds rounds): 2-4 std::threads cross each barrier class 6-16 times per round with wait(lambda)/wait()/wait_yield(lambda)/wait_yield() (uniform and mixed callers), every thread writes a plain slot before the barrier, the action sums the slots into a plain variable, every released thread reads the sum and a neighbour's slot; semaphores hand plain payload from signaller to waiter (signal()/wait() ping-pong, one signal(n) to several wait()/wait(d,s) callers with the answers collected by wait(n), try_acquire polling). Any ThreadSanitizer report or stale value is a violation with the scenario/round as replay.",
    "samples": samples,
    "input_distribution": stats,
}, assumptions=[
    "memory orders (acquire/release of ThreadBarrierSpin, the mutex hand-over of Semaphore and ThreadBarrierMutex) are NOT part of the Coq models (sequentially consistent): 'the action runs before anyone is released' and 'tokens handed over' as happens-before edges on plain data are covered ONLY by the run-time ThreadSanitizer stage (real threads, both tiers), i.e. by sampling",
    "std::mutex / std::condition_variable / std::atomic / this_thread::yield are the scheduler shim's (harness/sched/verif_sched.hpp): one event per operation, atomics sequentially consistent (acquire/release orders of ThreadBarrierSpin are outside the model)",
    "non-atomic reads/writes of value_, counts_[], step_ inside a critical section are attached to the thread's next shim event (no other thread can observe them while the mutex is held)",
    "size_t arithmetic modelled on nat: no overflow of delta+slack or of the token count; barriers are used by exactly thread_count participants, thread_count >= 1",
    "all theorems hold with and without spurious wake-ups; rest states with sleepers exist only without them, so the harness injects spurious wake-ups only into scenarios that always complete",
    "delta + slack beyond size_t (overflow family, witnesses of the repaired defect /repo ca9b7a2 in corpus/C11/overflow_cases.txt): judged by the check's big-integer checker and the rest-state analysis; the nat model is tied to 64-bit words by C11_sem_threshold_test_correct",
    "extraction: ExtrOcamlBasic only; nat/list stay Coq inductives",
])
