#!/usr/bin/env python3
"""C04 — parallel string sample sort.
 (1) Coq: safety / exactly-once / quiescence theorems of the sub-step protocol LTS (coq/C04).
 (2) tie: the real code (hooks -DTLX_VERIF) runs under the deterministic scheduler shim on generated inputs with tiny
     thresholds, 1-4 workers, many schedules; every protocol trace is replayed through the extracted lstep
     (must be accepted, must end all-dead); every result is checked (sorted, permutation, exact LCP); ASan/UBSan.
 (3) thorough: free-running real threads with the default parameters on large inputs (incl. > 1M strings)."""
import json, os, re, sys
HERE = os.path.dirname(os.path.abspath(__file__))
sys.path.insert(0, os.path.join(HERE, "..", "lib"))
import verif

ck = verif.Check("C04")
rng = ck.rng
pr = ck.prove()

REPO_SRCS = ["tlx/thread_pool.cpp", "tlx/multi_timer.cpp", "tlx/logger/core.cpp", "tlx/die/core.cpp", "tlx/timestamp.cpp"]

def hx(b):
    return b.hex() if b else ""

def gen_strings(rng, kind, n):
    out = []
    if kind == "equal_short":
        s = bytes(rng.range(97, 99) for _ in range(rng.range(0, 5))); out = [s] * n
    elif kind == "equal_long":
        s = bytes(rng.range(97, 98) for _ in range(rng.range(9, 30))); out = [s] * n
    elif kind == "two_valued":
        a = bytes(rng.range(97, 99) for _ in range(rng.range(0, 12))); b = a + bytes([rng.range(97, 122)]) if rng.chance(1, 2) else bytes(rng.range(97, 99) for _ in range(rng.range(0, 12)))
        out = [a if rng.chance(1, 2) else b for _ in range(n)]
    elif kind == "degenerate":   # one huge bucket sharing a long prefix + a few outliers
        pre = bytes(rng.range(97, 98) for _ in range(rng.range(8, 20)))
        out = [pre + bytes(rng.range(97, 99) for _ in range(rng.range(0, 6))) if not rng.chance(1, 10) else bytes([rng.range(1, 255)]) for _ in range(n)]
    elif kind == "small_alpha":
        out = [bytes(rng.choice([97, 98]) for _ in range(rng.range(0, 14))) for _ in range(n)]
    elif kind == "prefix_chain":
        base = bytes(rng.range(97, 100) for _ in range(40)); out = [base[:rng.range(0, 40)] for _ in range(n)]
    elif kind == "high_bytes":
        out = [bytes(rng.choice([1, 127, 128, 255]) for _ in range(rng.range(0, 10))) for _ in range(n)]
    elif kind == "prefix_groups":   # a few groups sharing an 8-byte prefix (equal-buckets of very different sizes)
        groups = [bytes([rng.range(65, 70)]) * 8 for _ in range(rng.range(2, 4))]
        weights = [rng.range(1, 8) for _ in groups]
        tot = sum(weights)
        for _ in range(n):
            r = rng.below(tot + 1)
            if r == tot: out.append(bytes([65]) + bytes(rng.range(97, 122) for _ in range(rng.range(0, 6)))); continue
            g = 0
            while r >= weights[g]: r -= weights[g]; g += 1
            out.append(groups[g] + bytes(rng.range(97, 122) for _ in range(6)))
    else:
        out = [bytes(rng.range(1, 255) for _ in range(rng.range(0, 24))) for _ in range(n)]
    return out

KINDS = ["equal_short", "equal_long", "two_valued", "degenerate", "small_alpha", "prefix_chain", "high_bytes", "random", "prefix_groups"]

def load_corpus():
    p = os.path.join(verif.VERIF, "corpus", "C04", "cases.txt")
    return [l.strip() for l in open(p) if l.strip()] if os.path.exists(p) else []

cases = []
dist = {}
if ck.replay:
    cases = [json.load(open(ck.replay))["case"]]
else:
    cases = load_corpus()
    N = 400 if ck.thorough() else 110
    for k in range(N):
        kind = KINDS[k % len(KINDS)]
        n = rng.choice([0, 1, 2, 3, 15, 16, 17, 31, 32, 33]) if rng.chance(1, 5) else rng.range(4, 220 if ck.thorough() else 140)
        strs = gen_strings(rng, kind, n)
        params = rng.choice(["T", "T", "T", "U", "U", "V", "V", "E", "E", "M", "S", "P", "R", "W", "K"]); workers = rng.range(1, 4); lcp = rng.below(2); st = rng.choice(["c", "c", "s"])
        nsched = 6 if ck.thorough() else 3
        cases.append("g%d_%s %s %d %d %s %d %d %s" % (k, kind, params, workers, lcp, st, nsched, rng.below(1 << 30), ",".join(hx(s) for s in strs) if strs else "-"))
        dist[kind] = dist.get(kind, 0) + 1
    # pool start-up / tear-down interleavings: tiny inputs, many schedules (the sort itself is over after a few events,
    # so most scheduling choices fall into ThreadPool construction, loop_until_empty and destruction)
    for k, (w, n) in enumerate([(2, 1), (2, 3), (3, 2), (4, 5)]):
        strs = gen_strings(rng, "small_alpha", n)
        cases.append("td%d T %d %d c %d %d %s" % (k, w, k % 2, 400 if ck.thorough() else 120, rng.below(1 << 30), ",".join(hx(s) for s in strs) if strs else "-"))
    # default parameters under the shim (small job only) -- exercises the public default path deterministically
    for k in range(6):
        strs = gen_strings(rng, KINDS[k % len(KINDS)], rng.range(0, 300))
        cases.append("d%d D %d %d c 2 %d %s" % (k, rng.range(1, 3), k % 2, rng.below(1 << 30), ",".join(hx(s) for s in strs) if strs else "-"))
casefile = os.path.join(ck.scratch, "cases.txt")
open(casefile, "w").write("\n".join(cases) + "\n")
case_by_id = {c.split()[0]: c for c in cases}

found = False
samples = []
nruns = 0
ntraces_ok = 0
nontrivial = set()
import concurrent.futures
with concurrent.futures.ThreadPoolExecutor(max_workers=3) as ex:
    # the 20 public overloads of strings_parallel.hpp, real threads, default parameters
    f3 = ex.submit(ck.build_cpp, "c04_frontend", ["harness/C04/frontend_harness.cpp"],
                   ["-std=c++17", "-O1", "-g", "-fsanitize=address,undefined", "-fno-sanitize-recover=all"], REPO_SRCS, [], 1500)
    f1 = ex.submit(ck.build_cpp, "c04_shim", ["harness/C04/ps5_harness.cpp"], None, REPO_SRCS,
                   ["-DUSE_SHIM", "-include", os.path.join(verif.VERIF, "harness", "sched", "verif_sched.hpp")], 1500)
    # free-running real threads under ThreadSanitizer (data races are outside the Coq model: run-time evidence)
    f2 = ex.submit(ck.build_cpp, "c04_tsan", ["harness/C04/ps5_harness.cpp"],
                   ["-std=c++17", "-O1", "-g", "-fsanitize=thread", "-DTLX_HAVE_THREAD_SANITIZER=1", "-DNDEBUG"], REPO_SRCS, [], 1500)
    # -DNDEBUG on purpose: the library's assert()s read the atomics with seq_cst loads, which act as acquire operations and would
    # hide a release-only / relaxed update from ThreadSanitizer; the ASan+UBSan builds keep the assertions
    exe, log = f1.result()
    exe_tsan, log_tsan = f2.result()
    exe_fe, log_fe = f3.result()
drv, dlog = ck.ocaml_driver("C04")

def translate(pt):
    """hook tokens -> model tokens; returns (tokens, error or None)"""
    toks = []; pending = {}   # tid -> parent id awaited after a 'notify'
    ncreate = 0
    for t in pt.split():
        if not re.fullmatch(r"\d+:[a-z]+:-?\d+(:-?\d+)?", t):
            return toks, "GARBLED"     # sanitizer / abort output interleaved with the trace: handled by the crash path
        f = t.split(":")
        tid, kind, sid = f[0], f[1], int(f[2])
        if sid < 0:
            return toks, "event '%s' on a step that is not alive (touched after its release)" % t
        if kind == "create":
            if sid != ncreate: return toks, "step ids out of order at " + t
            ncreate += 1; toks.append("C%d" % int(f[3]))
        elif kind == "touch": toks.append("T%d" % sid)
        elif kind == "add": toks.append("A%d" % sid)
        elif kind == "done":
            if pending.get(tid) == sid: pending.pop(tid)          # the decrement belonging to the preceding notify
            else: toks.append("D%d" % sid)
        elif kind == "alldone": toks.append("L%d" % sid)
        elif kind == "notify":
            toks.append("N%d" % sid)
            if int(f[3]) >= 0: pending[tid] = int(f[3])
        elif kind == "delete": toks.append("X%d" % sid)
    return toks, None

if exe is None:
    ck.violation("harness does not compile against /repo (hooks / API changed)", {"correspondence": "harness/C04/ps5_harness.cpp", "log": log[-2500:]}, no_input=True)
elif drv is None:
    ck.violation("extracted protocol model does not build", {"correspondence": "ocaml/C04_driver.ml", "log": dlog[-2000:]}, no_input=True)
else:
    rc, out = verif.sh([exe, casefile], timeout=3000, env=dict(os.environ, ASAN_OPTIONS="detect_leaks=1:abort_on_error=0"))
    lines = out.splitlines()
    runs = [l for l in lines if l.startswith("R ")]
    tracefile = os.path.join(ck.scratch, "traces.txt")
    meta = []
    with open(tracefile, "w") as tf:
        for l in runs:
            head, _, pt = l.partition(" PT ")
            hf = head.split(None, 3)
            if len(hf) < 4 or not hf[2].isdigit():
                continue
            cid, r, verdict = hf[1], hf[2], hf[3]
            nruns += 1
            if verdict != "OK" and not (verdict.startswith("FAIL ") or rc == 0):
                continue      # garbled line of a crashing run: the crash path below reports it
            if verdict != "OK":
                found = True
                ck.violation("parallel sample sort result violates the property (%s) case %s schedule %s" % (verdict, cid, r),
                             {"case": case_by_id.get(cid), "schedule_index": int(r), "verdict": verdict})
                if ck.violations >= 3: break
            toks, err = translate(pt)
            if err == "GARBLED":
                if rc == 0:
                    ck.violation("unreadable protocol trace", {"correspondence": "hook trace format", "case": case_by_id.get(cid), "trace": pt[-800:]}, no_input=True)
                continue
            if verdict != "OK" and rc != 0 and not verdict.startswith("FAIL "):
                continue
            if err:
                found = True
                ck.violation("protocol trace of the real code: " + err, {"case": case_by_id.get(cid), "schedule_index": int(r), "trace": pt[-1500:]})
                if ck.violations >= 3: break
            tf.write(" ".join(toks) + "\n"); meta.append((cid, r, pt))
            if len(toks) > 12: nontrivial.add(" ".join(toks))
    if rc != 0 and ck.violations == 0:
        # sanitizer report / crash / deadlock: identify the case by re-running cases one by one after the last completed one
        found = True
        last = runs[-1].split()[1] if runs else None
        ids = [c.split()[0] for c in cases]
        start = ids.index(last) if last in ids else 0
        bad = None
        for c in cases[start:start + 3]:
            one = os.path.join(ck.scratch, "one.txt"); open(one, "w").write(c + "\n")
            r1, o1 = verif.sh([exe, one], timeout=600)
            if r1 != 0: bad = (c, o1); break
        ck.violation("real code crashes / sanitizer report / deadlock under the scheduler (rc=%d)" % rc,
                     {"case": bad[0] if bad else None, "log_tail": (bad[1] if bad else out)[-3000:]})
    elif ck.violations == 0:
        rc2, out2 = verif.sh([drv, tracefile], timeout=1200)
        res = out2.splitlines()
        for (cid, r, pt), line in zip(meta, res):
            if line.startswith("OK") and line.endswith("dead=1"):
                ntraces_ok += 1
            else:
                # the model rejects a real trace: is it a property violation (Error = touch/notify after release, underflow)?
                if "Error" in line:
                    found = True
                    ck.violation("protocol trace of the real code reaches a model Error state (use after release / counter underflow): " + line,
                                 {"case": case_by_id.get(cid), "schedule_index": int(r), "model_verdict": line, "trace": pt[-1500:]})
                else:
                    ck.violation("protocol trace of the real code is not a behaviour of the proven model: " + line,
                                 {"correspondence": "C04.Jobs.lstep vs hook trace", "case": case_by_id.get(cid), "schedule_index": int(r), "model_verdict": line, "trace": pt[-1500:]}, no_input=True)
                if ck.violations >= 3: break
        for (cid, r, pt) in meta[:2] + meta[len(meta) // 2: len(meta) // 2 + 1]:
            samples.append({"case": case_by_id.get(cid, "")[:300], "schedule_index": int(r), "protocol_trace": pt[:400]})

# ---- free-running real threads under ThreadSanitizer: tiny thresholds, all hardware threads
tsan_runs = 0
if ck.violations == 0 and exe is not None:
    if exe_tsan is None:
        ck.violation("ThreadSanitizer harness does not compile", {"correspondence": "harness/C04/ps5_harness.cpp (-fsanitize=thread)", "log": log_tsan[-2000:]}, no_input=True)
    else:
        tcases = []
        NT = 60 if ck.thorough() else 14
        for k in range(NT):
            kind = KINDS[k % len(KINDS)]
            n = rng.choice([150, 400, 900, 2500])
            strs = gen_strings(rng, kind, n)
            tcases.append("ts%d_%s %s 0 %d %s %d 1 %s" % (k, kind, rng.choice(["T", "U", "V", "E", "M", "S", "R", "W", "K"]), k % 2, rng.choice(["c", "s"]), 3 if ck.thorough() else 2, ",".join(hx(x) for x in strs) if strs else "-"))
        tf = os.path.join(ck.scratch, "tsan_cases.txt"); open(tf, "w").write("\n".join(tcases) + "\n")
        rct, outt = verif.sh([exe_tsan, tf], timeout=2400, env=dict(os.environ, TSAN_OPTIONS="halt_on_error=0 report_signal_unsafe=0 history_size=4"))
        tsan_runs = sum(1 for l in outt.splitlines() if l.startswith("R "))
        for l in outt.splitlines():
            if l.startswith("R "):
                head = l.partition(" PT ")[0].split(None, 3)
                if len(head) == 4 and head[3].startswith("FAIL "):
                    found = True
                    ck.violation("free-running run (real threads, TSan build) violates the property: %s %s" % (head[1], head[3]),
                                 {"case": next((c for c in tcases if c.startswith(head[1] + " ")), None), "verdict": head[3]})
        if "WARNING: ThreadSanitizer" in outt:
            found = True
            i = outt.find("WARNING: ThreadSanitizer")
            # the case running when the first report appeared = the next "R <id>" line after it
            after = [l for l in outt[i:].splitlines() if l.startswith("R ")]
            cid = after[0].split()[1] if after else None
            ck.violation("ThreadSanitizer reports a data race in the parallel string sort (real threads, tiny thresholds)",
                         {"case": next((c for c in tcases if cid and c.startswith(cid + " ")), tcases[0] if tcases else None),
                          "report": outt[i:i + 3500], "replay_cmd": "build harness/C04/ps5_harness.cpp with -fsanitize=thread and run it on the case line"})
        elif rct != 0 and ck.violations == 0:
            found = True
            ck.violation("TSan harness crashed (rc=%d)" % rct, {"log_tail": outt[-3000:]})

# ---- thread-pool mini scenarios under the shim: many schedules aimed at the lost-wake-up window (termination of the sort)
pm_runs = 0
if ck.violations == 0:
    exe_pm, log_pm = ck.build_cpp("c04_poolmini", ["harness/C04/pool_mini.cpp"], None, REPO_SRCS,
                                  ["-DUSE_SHIM", "-include", os.path.join(verif.VERIF, "harness", "sched", "verif_sched.hpp")], 600)
    if exe_pm is None:
        ck.violation("thread-pool mini harness does not compile", {"correspondence": "harness/C04/pool_mini.cpp", "log": log_pm[-2000:]}, no_input=True)
    else:
        npm = 6000 if ck.thorough() else 1500
        first = 1 + (ck.seed % 1000) * 100000
        rcp, outp = verif.sh([exe_pm, str(first), str(npm)], timeout=600)
        pm_runs = sum(1 for l in outp.splitlines() if l.startswith("P "))
        if rcp != 0:
            found = True
            last = [l for l in outp.splitlines() if l.startswith("S ")]
            ck.violation("ThreadPool under the scheduler: a schedule ends in a deadlock / crash (lost wake-up: loop_until_empty() never returns, so the sort would not terminate) rc=%d" % rcp,
                         {"case": last[-1] if last else None, "replay_cmd": "build harness/C04/pool_mini.cpp with the shim and run `pool_mini <seed> 1`", "log_tail": outp[-2500:]})

# ---- the public front-ends (every overload x plain/lcp x with/without the memory argument), real threads
fe_runs = 0
if ck.violations == 0:
    if exe_fe is None:
        ck.violation("front-end harness does not compile", {"correspondence": "harness/C04/frontend_harness.cpp", "log": log_fe[-2000:]}, no_input=True)
    else:
        fcases = []
        NF = 12 if ck.thorough() else 4
        for ov in range(10):
            for lcpf in (0, 1):
                for r in range(NF):
                    kind = KINDS[(ov + 3 * lcpf + r) % len(KINDS)]
                    n = [0, 1, 2, 7, 60, 400, 3000, 9000][(ov + lcpf + 5 * r) % 8]
                    strs = gen_strings(rng, kind, n) if n else []
                    fcases.append("fe%d_%d_%d_%s %d %d %d %s" % (ov, lcpf, r, kind, ov, lcpf, rng.choice([0, 0, 1000000]), ",".join(hx(x) for x in strs) if strs else "-"))
        # one input above the default smallsort_threshold (2^20 strings), so that the default parameters take the parallel path
        bign = 1100000 if ck.thorough() else 120000   # quick: below the threshold (one sequential job), still through the whole front-end plumbing
        base = gen_strings(rng, "small_alpha", 3000)
        big = (base * (bign // len(base) + 1))[:bign]
        fcases.append("febig_lcp 0 1 0 %s" % ",".join(hx(x) for x in big))
        if ck.thorough():
            fcases.append("febig_std 9 0 0 %s" % ",".join(hx(x) for x in big))
            fcases.append("febig_constchar 3 1 0 %s" % ",".join(hx(x) for x in big))
        ff = os.path.join(ck.scratch, "frontend_cases.txt"); open(ff, "w").write("\n".join(fcases) + "\n")
        rcf, outf = verif.sh([exe_fe, ff], timeout=1500)
        for l in outf.splitlines():
            if l.startswith("F "):
                fe_runs += 1
                h3 = l.split(None, 2)
                if len(h3) == 3 and h3[2] != "OK":
                    found = True
                    ck.violation("public front-end violates the property: %s %s" % (h3[1], h3[2]),
                                 {"case": next((c[:4000] for c in fcases if c.startswith(h3[1] + " ")), None), "verdict": h3[2],
                                  "format": "<id> <overload 0..9> <lcp> <memory> <hex strings>", "replay_cmd": "build harness/C04/frontend_harness.cpp (ASan+UBSan) and run it on the case line"})
                    if ck.violations >= 3: break
        if rcf != 0 and ck.violations == 0:
            found = True
            done = sum(1 for l in outf.splitlines() if l.startswith("F "))
            ck.violation("front-end harness crashed / sanitizer report (rc=%d) in case #%d" % (rcf, done),
                         {"case": fcases[done][:4000] if done < len(fcases) else None, "log_tail": outf[-3000:]})

# ---- thorough: free-running real threads, default parameters, large inputs
big_runs = 0
if ck.thorough() and ck.violations == 0 and exe is not None:
    exe2, log2 = ck.build_cpp("c04_free", ["harness/C04/ps5_harness.cpp"], repo_sources=REPO_SRCS, flags=["-std=c++17", "-O2", "-g", "-fsanitize=address,undefined", "-fno-sanitize-recover=all"], timeout=1500)
    if exe2 is None:
        ck.violation("free-running harness does not compile", {"correspondence": "harness/C04/ps5_harness.cpp (free)", "log": log2[-2000:]}, no_input=True)
    else:
        bigcases = []
        for k, (kind, n) in enumerate([("equal_short", 1200000), ("degenerate", 1300000), ("small_alpha", 300000), ("random", 200000), ("equal_long", 1100000)]):
            strs = gen_strings(rng, kind, 2000)
            reps = n // len(strs) + 1
            strs = (strs * reps)[:n]
            bigcases.append("big%d_%s D 0 %d c 1 1 %s" % (k, kind, k % 2, ",".join(hx(s) for s in strs)))
        bf = os.path.join(ck.scratch, "big.txt"); open(bf, "w").write("\n".join(bigcases) + "\n")
        for cpus in ("0-1", "0-15"):
            rc3, out3 = verif.sh(["taskset", "-c", cpus, exe2, bf], timeout=3000)
            for l in out3.splitlines():
                if l.startswith("R "):
                    big_runs += 1
                    head = l.partition(" PT ")[0].split(None, 3)
                    if head[3] != "OK":
                        found = True
                        ck.violation("default-parameter run on a large input violates the property: %s %s (cpus %s)" % (head[1], head[3], cpus), {"case_id": head[1], "cpus": cpus, "generator": "see checks/C04.py big cases", "seed": ck.seed})
            if rc3 != 0 and ck.violations == 0:
                found = True
                ck.violation("default-parameter run crashes / sanitizer report (cpus %s)" % cpus, {"log_tail": out3[-3000:], "cpus": cpus})

if pr is not None and not pr["ok"]:
    ck.proof_broken(found)

ck.finish({
    "evaluations": nruns + big_runs + tsan_runs + fe_runs + pm_runs,
    "pool_mini_schedules": pm_runs,
    "frontend_calls": fe_runs,
    "tsan_runs": tsan_runs,
    "distinct_nontrivial": len(nontrivial),
    "traces_validated_against_impl": ntraces_ok,
    "rule": "cases = string multisets of 8 kinds (all-equal short/long, two-valued, bucket-degenerate, small alphabet, prefix chains, high bytes, random) x parameter sets {T tiny TreeBits 2, U tiny unroll TreeBits 3, V small, E equality classifier, M/S/P/R/W one boolean switch of PS5ParametersDefault flipped each, K 32-bit key type, D default} x workers 1..4 x with/without LCP x {unsigned char**, std::string*}; each run under the deterministic scheduler with a different schedule; non-trivial = distinct protocol traces longer than 12 events (several steps). Every run: result checked (sorted / permutation of objects / exact LCP), protocol trace accepted by the extracted Coq lstep and ending all-dead.",
    "samples": samples,
    "input_distribution": dist,
}, assumptions=[
    "hook events (TLX_VERIF) are emitted immediately before the action they announce; 'done' immediately before the decrement",
    "the model is thread-agnostic: any thread may execute any enabled event (over-approximates the real interleavings)",
    "data races / weak memory are outside the Coq model (atomics are sequentially consistent under the shim); they are covered at run time by a ThreadSanitizer build of the same harness with real threads (both tiers)",
    "sampling RNG is seeded by an address: splitters are arbitrary; results are checked, not compared with a model",
])
