#!/usr/bin/env python3
"""C05 — sequential multiway merge.
translator (3-way / 4-way decision automata regenerated from multiway_merge.hpp) -> Coq theorems (per-variant merge
theorems, generated automata closed by a finite sweep) -> correspondence of the extracted model with the four public
entry points of /repo (all MWMA_* algorithms x stable/unstable x sentinels/none x three element types, checking
iterators, ASan/UBSan), plus a direct check of the property on every result of the implementation."""
import json, os, sys
HERE = os.path.dirname(os.path.abspath(__file__))
sys.path.insert(0, os.path.join(HERE, "..", "lib")); sys.path.insert(0, os.path.join(HERE, "..", "translate"))
import verif, merge34

ck = verif.Check("C05")
rng = ck.rng
translator_error = None
try:
    ck.regen(merge34.GENERATE)
except RuntimeError as e:
    translator_error = str(e)
pr = ck.prove() if translator_error is None else None

ALGS = ["LOSER_TREE", "LOSER_TREE_COMBINED", "LOSER_TREE_SENTINEL", "BUBBLE"]

# ---------------------------------------------------------------- generators
def fmt_case(etype, stable, sent, alg, ln, seqs, sents):
    toks = [etype, str(int(stable)), str(int(sent)), str(alg), str(ln), str(len(seqs))]
    toks += [",".join(map(str, s)) if s else "_" for s in seqs]
    if sent:
        toks += [str(x) for x in sents]
    return " ".join(toks)

def gen_seqs(rng, k, shape):
    """shape: 0 tiny alphabet (heavy duplicates), 1 all equal, 2 one dominant sequence, 3 wide keys,
    4 many empty sequences, 5 staircase (disjoint ranges: sequences run out one after the other), 6 all empty,
    7 one very long sequence among empty / one-element ones"""
    seqs = []
    for i in range(k):
        if shape == 0:
            n = rng.below(5); keys = [rng.below(3) for _ in range(n)]
        elif shape == 1:
            n = rng.below(5); keys = [4] * n
        elif shape == 2:
            n = rng.range(6, 14) if i == k // 2 else rng.below(3); keys = [rng.below(6) for _ in range(n)]
        elif shape == 3:
            n = rng.below(9); keys = [rng.below(40) for _ in range(n)]
        elif shape == 4:
            n = 0 if rng.chance(1, 2) else rng.range(1, 4); keys = [rng.below(4) for _ in range(n)]
        elif shape == 5:
            n = rng.range(1, 4); keys = [10 * ((i * 7) % max(k, 1)) + rng.below(3) for _ in range(n)]
        elif shape == 6:
            n = 0; keys = []                                   # all sequences empty
        else:
            n = rng.range(25, 45) if i == (k - 1) // 2 else rng.below(2); keys = [rng.below(9) for _ in range(n)]   # very unequal
        seqs.append(sorted(keys))
    # audit: keys were never negative / far from ValueType() = 0; shift whole inputs now and then
    if rng.below(4) == 0:
        off = (-20, -100000, 100000)[rng.below(3)]
        seqs = [[x + off for x in s_] for s_ in seqs]
    return seqs

SHAPES = [0, 0, 1, 2, 3, 3, 4, 5, 6, 7]

def gen_sents(rng, seqs):
    allk = [x for s in seqs for x in s]
    mx = max(allk) if allk else 0
    mode = rng.below(3)
    if mode == 0: return [mx + 1] * len(seqs)
    if mode == 1: return [mx + 1 + rng.below(3) for _ in seqs]
    return [mx + 1 + ((i * 5) % 4) for i in range(len(seqs))]

def configs(rng, how_many):
    allc = [(e, st, se, a) for e in "ITBS" for st in (0, 1) for se in (0, 1) for a in range(4)]
    if how_many >= len(allc): return allc
    out = []
    for _ in range(how_many): out.append(allc[rng.below(len(allc))])
    return out


# ---------------------------------------------------------------- API surface (audited against multiway_merge.hpp / merge_advance.hpp)
# profile -> element types it is instantiated for (harness/C05/api_harness.cpp); profile 0 = harness/C05/mwm_harness.cpp
PROFILES = {0: "ITB", 1: "ITMB", 2: "IB", 3: "T", 4: "IB", 5: "T", 6: "TB", 7: "I", 8: "S"}
def part_of(profile, e):
    if profile == 0: return 0
    return {1: 1 if e in "IT" else 2, 2: 2 if e == "B" else 3, 3: 1, 4: 3, 5: 1, 6: 3, 7: 2, 8: 1}[profile]

API_SURFACE = [
 # public entry points
 {"api": "tlx::multiway_merge / stable_multiway_merge / multiway_merge_sentinels / stable_multiway_merge_sentinels (seqs_begin, seqs_end, target, size, comp, mwma)", "called": True, "by": "P0,P1,P3,P4,P5: all four, every MWMA_* constant, every k"},
 {"api": "the same four with mwma defaulted (MWMA_ALGORITHM_DEFAULT) / with comp and mwma defaulted (std::less)", "called": True, "by": "P2"},
 {"api": "tlx::multiway_merge_base<Stable, Sentinels> called directly, all four <Stable,Sentinels> instances", "called": True, "by": "P1 (r odd), P4 (r odd), P6/P7 for k < 2"},
 {"api": "MultiwayMergeAlgorithm constants MWMA_LOSER_TREE, _COMBINED, _SENTINEL, MWMA_BUBBLE with every k in 0..9,17 (incl. k = 0,1,2 where the constant is ignored; _SENTINEL without sentinels -> _COMBINED)", "called": True, "by": "all profiles"},
 # detail routines callable directly
 {"api": "multiway_merge_detail::multiway_merge_3_variant<guarded_iterator|unguarded_iterator>, multiway_merge_3_combined", "called": True, "by": "through the switch (all profiles) and directly (P6,P7)"},
 {"api": "multiway_merge_detail::multiway_merge_4_variant<guarded_iterator|unguarded_iterator>, multiway_merge_4_combined", "called": True, "by": "through the switch and directly (P6,P7)"},
 {"api": "multiway_merge_detail::multiway_merge_bubble<Stable>", "called": True, "by": "switch (k >= 5) and directly for k >= 2 (P6,P7)"},
 {"api": "multiway_merge_detail::multiway_merge_loser_tree<LoserTree<Stable,T,Comp>>", "called": True, "by": "switch and directly for k >= 2 (P6,P7)"},
 {"api": "multiway_merge_detail::multiway_merge_loser_tree_unguarded<...>", "called": True, "by": "via _combined and _sentinel (no direct call: its precondition is established only by those two)"},
 {"api": "multiway_merge_detail::multiway_merge_loser_tree_combined<Stable>, multiway_merge_loser_tree_sentinel<Stable>", "called": True, "by": "switch and directly for k >= 2 (P6,P7)"},
 {"api": "multiway_merge_detail::prepare_unguarded<Stable>", "called": True, "by": "via every *_combined routine"},
 {"api": "multiway_merge_detail::prepare_unguarded_sentinel", "called": False, "by": "no sequential caller in tlx (helper of the parallel merge: writes sentinels and returns an overhang); outside the property's statement"},
 {"api": "multiway_merge_detail::guarded_iterator / unguarded_iterator (operator<, operator<=, ++, *, iterator())", "called": True, "by": "via the 3-way / 4-way variants"},
 {"api": "tlx::merge_advance / merge_advance_usual / merge_advance_movc", "called": True, "by": "merge_advance via k = 2 and the 3-way combined (all profiles); all three directly with two different iterator types (P6) / raw pointers (P7)"},
 # template degrees of freedom
 {"api": "sequence-of-pairs iterator: std::vector<pair>::iterator | pair* | std::deque<pair>::iterator (const ranges are not usable: .first is advanced in place)", "called": True, "by": "P0,P3-P6 | P1,P7 | P2"},
 {"api": "element iterators: checking iterator class | raw pointer | std::vector<T>::iterator | std::deque<T>::iterator", "called": True, "by": "P0,P4,P5,P6 | P1,P7 | P2 | P3"},
 {"api": "output iterator: T* | std::vector<T>::iterator | std::deque<T>::iterator | pointer to a different value type assignable from T | std::back_inserter (merge_advance* only: the tree merges need target + n)", "called": True, "by": "P0,P4-P7 | P1 | P2 | P3 | P6"},
 {"api": "DiffType of merge_advance*: int | long | unsigned | size_t; size of the merges: the iterators' difference_type (long)", "called": True, "by": "P6,P7 | all"},
 {"api": "comparator: std::less / key-only less | std::greater / key-only greater on descending inputs | stateful non-default-constructible counting comparator", "called": True, "by": "P0-P3,P6,P7 | P4 | P5"},
 {"api": "element type: int (4 B) | 16 B record = 2*sizeof(size_t) (largest copy-based loser tree) | 24 B record (smallest pointer-based tree) | 40 B record", "called": True, "by": "I | T | M (P1) | B"},
 {"api": "element type whose key owns heap memory and whose destructor poisons it (24 B, pointer-based trees): exposes addresses of temporaries / by-value parameters kept by a tree (e.g. the sentinel of LoserTreePointerUnguarded)", "called": True, "by": "S (P8): all entry points, algorithms, k, stable and unstable, sentinels and none"},
 {"api": "operator< of every record element type is defined and deliberately UNRELATED to the comparators handed to the merges (orders by position only); int runs with std::greater on descending inputs: code that falls back to operator< yields a concrete wrong result instead of a compile error", "called": True, "by": "T, M, B, S in every profile; I in P4"},
 # regimes
 {"api": "regime: total input size around 2^31, 2^32, 2^32+7, 2.8e9 elements (sparse mapping), k in 2,3,4,5,8, every algorithm, stable/unstable, sentinel and plain entry points, 1-byte and 24-byte elements", "called": True, "by": "harness/C05/huge_harness.cpp"},
 {"api": "regime: every sequence in its own exactly sized heap block (ASan redzones) | all sequences adjacent sub-ranges of ONE buffer (overruns read valid neighbours; caught by the checking iterators / wrong results)", "called": True, "by": "P0,P1,P6 | P4,P5,P7"},
 {"api": "regime: k = 0,1,2 with every algorithm constant; len = 0; all sequences empty; one very long sequence among short/empty ones; len smaller than one sequence; empty first sequence", "called": True, "by": "generator shapes 0-7, every len 0..total for small inputs"},
]

def assign_variant(rng, c):
    """append the API profile: ~45% the plain harness, otherwise a profile that is instantiated for the element type"""
    t = c.split()
    if t[-1].startswith("v="): return c
    e = t[0]
    if e == "S":
        return c + " v=8.%d" % rng.below(48)
    if rng.below(100) < 45:
        return c + " v=0.0"
    cand = [p for p in PROFILES if p and e in PROFILES[p]]
    p = cand[rng.below(len(cand))]
    if p == 1 and e == "T" and rng.below(2) == 0:
        t[0] = "M"; c = " ".join(t)
    return c + " v=%d.%d" % (p, rng.below(48))

TIE_WORDS = [[], [0], [1], [2], [0, 0], [0, 1], [0, 2], [1, 1], [1, 2], [2, 2]]

def exhaustive_ties():
    """bounded-exhaustive family used by the model-guided search when a proof / the correspondence breaks:
    all inputs of k = 3 over TIE_WORDS, k = 4 over the 8 words without repeated keys inside a word, every length,
    stable entry points, guarded / combined / sentinel automata."""
    import itertools
    out = []
    for seqs in itertools.product(TIE_WORDS, repeat=3):
        total = sum(len(x) for x in seqs)
        for a in (0, 1, 2):
            for ln in range(1, total + 1):
                out.append(fmt_case("T", 1, 1 if a == 2 else 0, a, ln, list(seqs), [3, 3, 3]))
    w4 = [w for w in TIE_WORDS if len(set(w)) == len(w)]
    for seqs in itertools.product(w4, repeat=4):
        total = sum(len(x) for x in seqs)
        for a in (0, 1):
            for ln in range(max(1, total - 2), total + 1):
                out.append(fmt_case("T", 1, 0, a, ln, list(seqs), [3, 3, 3, 3]))
    return out

corpus_path = os.path.join(verif.VERIF, "corpus", "C05", "cases.txt")
cases = [l.strip() for l in open(corpus_path) if l.strip() and not l.startswith("#")] if os.path.exists(corpus_path) else []
ncorpus = len(cases)
if ck.replay:
    cases = [json.load(open(ck.replay))["case"]]
else:
    KS = [0, 1, 2, 3, 4, 5, 6, 7, 8, 9, 17]
    # (a) small inputs, EVERY length 0..total, a few configurations each (all 48 in the thorough tier for k <= 5)
    n_small = 9000 if ck.thorough() else 420
    for t in range(n_small):
        k = KS[t % len(KS)]
        seqs = gen_seqs(rng, k, SHAPES[rng.below(len(SHAPES))])
        total = sum(len(s) for s in seqs)
        sents = gen_sents(rng, seqs)
        ncfg = 48 if (ck.thorough() and k <= 5 and t % 4 == 0) else (6 if ck.thorough() else 3)
        for (e, st, se, a) in configs(rng, ncfg):
            for ln in range(total + 1):
                cases.append(fmt_case(e, st, se, a, ln, seqs, sents))
    # (b) medium inputs, random length, all four algorithms x stable x sentinels on one element type
    n_med = 5000 if ck.thorough() else 260
    for t in range(n_med):
        k = KS[rng.below(len(KS))]
        if t % 13 == 5: k = (33, 64, 65)[rng.below(3)]     # audit: deeper trees than k = 17
        seqs = gen_seqs(rng, k, SHAPES[rng.below(len(SHAPES))])
        total = sum(len(s) for s in seqs)
        sents = gen_sents(rng, seqs)
        e = "ITBS"[t % 4]
        lens = sorted(set([rng.range(0, total), total, max(0, total - 1)]))
        for a in range(4):
            for st in (0, 1):
                for se in (0, 1):
                    for ln in lens:
                        cases.append(fmt_case(e, st, se, a, ln, seqs, sents))
    # (c) tie patterns for the 3-way / 4-way automata: every edge's `<` / `<=` only matters for one pattern of equal
    #     heads; sequences drawn from all sorted words of length <= 2 over 3 keys, stable entry points, tagged elements
    n_tie = 9000 if ck.thorough() else 330
    for t in range(n_tie):
        k = 3 + (t % 2)
        seqs = [TIE_WORDS[rng.below(len(TIE_WORDS))] for _ in range(k)]
        total = sum(len(s) for s in seqs)
        a = (0, 1, 2)[t % 3]
        se = 1 if a == 2 else rng.below(2)
        for ln in range(1, total + 1):
            cases.append(fmt_case("TBS"[t % 3], 1, se, a, ln, seqs, [3] * k))

def tiny_seqs(rng, k):
    return [sorted(rng.below(50) for _ in range(rng.below(4))) for _ in range(k)]

if not ck.replay:
    # (d) many sequences: indices beyond 8 bits (255, 256, 257, 300) and k = 1000, every algorithm, tiny sequences
    for k in (255, 256, 257, 300, 1000):
        for a in range(4):
            for st in (0, 1):
                for rep in range(4 if ck.thorough() else 1):
                    seqs = tiny_seqs(rng, k)
                    total = sum(len(x) for x in seqs)
                    ln = total if rng.below(2) == 0 else rng.range(0, total)
                    se = 1 if a == 2 else rng.below(2)
                    cases.append(fmt_case("ITBS"[rng.below(4)], st, se, a, ln, seqs, [60] * k))
    cases = [assign_variant(rng, c) for c in cases]

# ---------------------------------------------------------------- the property, decided on a result line of the implementation
def parse_case(c):
    t = c.split()
    etype, stable, sent, alg, ln, k = t[0], t[1] == "1", t[2] == "1", int(t[3]), int(t[4]), int(t[5])
    seqs = [([] if x == "_" else [int(y) for y in x.split(",")]) for x in t[6:6 + k]]
    sents = [int(x) for x in t[6 + k:6 + 2 * k]] if sent else []
    return etype, stable, sent, alg, ln, seqs, sents

def parse_line(line):
    d = {"flags": []}
    for tok in line.split():
        if tok.startswith("out="):
            d["out"] = [tuple(int(z) for z in x.split(":")) for x in tok[4:].split(",")] if tok[4:] else []
        elif tok.startswith("ret="): d["ret"] = int(tok[4:])
        elif tok.startswith("cur="): d["cur"] = [int(x) for x in tok[4:].split(",")] if tok[4:] else []
        else: d["flags"].append(tok)
    return d

def property_verdict(c, line):
    """None if the implementation's observable result satisfies the property text, else a description."""
    etype, stable, sent, alg, ln, seqs, sents = parse_case(c)
    try:
        d = parse_line(line)
        out, ret, cur = d["out"], d["ret"], d["cur"]
    except Exception:
        return "unparsable result line"
    if d["flags"]:
        return "input storage misused: " + " ".join(d["flags"])
    if ret != ln or len(out) != ln:
        return "wrote %d elements / returned position %d for requested length %d" % (len(out), ret, ln)
    if len(cur) != len(seqs) or any(c_ < 0 or c_ > len(s) for c_, s in zip(cur, seqs)):
        return "input begin positions outside their sequences"
    if sum(cur) != ln:
        return "input begin positions advanced by %d in total, %d elements written" % (sum(cur), ln)
    keys = [o[0] for o in out]
    if any(keys[i] > keys[i + 1] for i in range(len(keys) - 1)):
        return "output not in non-decreasing order"
    consumed = [s[:c_] for s, c_ in zip(seqs, cur)]
    if sorted(keys) != sorted(x for p in consumed for x in p):
        return "output is not the multiset of the consumed prefixes (inputs not advanced past exactly the elements taken)"
    rest = [s[c_] for s, c_ in zip(seqs, cur) if c_ < len(s)]
    if keys and rest and keys[-1] > min(rest):
        return "an element left in the inputs is smaller than an element written (not the smallest elements)"
    if etype != "I":
        nxt = [0] * len(seqs)
        for (kk, s, p) in out:
            if not (0 <= s < len(seqs)) or p != nxt[s] or p >= len(seqs[s]) or seqs[s][p] != kk:
                return "output is not an interleaving of the consumed prefixes"
            nxt[s] += 1
        if nxt != cur:
            return "begin positions are not just past the elements taken"
    if stable:
        allt = sorted((x, i, p) for i, s in enumerate(seqs) for p, x in enumerate(s))[:ln]
        if etype != "I":
            if out != allt:
                return "stable variant: equivalent elements not ordered by (sequence index, position)"
        else:
            want = [0] * len(seqs)
            for (_, i, _) in allt: want[i] += 1
            if want != cur:
                return "stable variant: begin positions differ from those of the stable merge"
    return None

def canon(c, line):
    """what the property fixes: everything for the stable entry points; keys and returned position otherwise"""
    etype, stable = c[0], c.split()[1] == "1"
    if stable: return line.strip()
    try:
        d = parse_line(line)
        return "out=%s ret=%d %s" % (",".join(str(o[0]) for o in d["out"]), d["ret"], " ".join(d["flags"]))
    except Exception:
        return line.strip()

# ---------------------------------------------------------------- run both sides
found = False
hist = {"k": {}, "alg": {}, "entry": {}, "etype": {}, "api_profile": {}}
distinct = set()
samples = []
soft = []
counters = {"verdicts": 0, "evaluations": 0}

def run_cases(cases, tag):
    """Runs implementation and model on `cases`. Reports property violations of the implementation at once (with the
    case as replay); collects model/correspondence mismatches in `soft`. Returns the implementation's lines."""
    global found
    casefile = os.path.join(ck.scratch, "cases_%s.txt" % tag)
    with open(casefile, "w") as f:
        f.write("\n".join(cases) + "\n")
    rc2_holder = {}
    def run_model():
        rc2_holder["r"] = verif.sh([drv, casefile], timeout=3000)
    import threading
    tm = threading.Thread(target=run_model); tm.start()
    # every case goes to the executable that implements its API profile
    groups = {}
    for idx, c in enumerate(cases):
        t = c.split()
        prof = int(t[-1][2:].split(".")[0]) if t[-1].startswith("v=") else 0
        groups.setdefault(part_of(prof, t[0]), []).append(idx)
    impl = ["<missing>"] * len(cases)
    results = {}
    def run_part(part, idxs):
        f = os.path.join(ck.scratch, "cases_%s_p%d.txt" % (tag, part))
        with open(f, "w") as fh:
            fh.write("\n".join(cases[i] for i in idxs) + "\n")
        results[part] = verif.sh([exes[part], f], timeout=1200 if ck.thorough() else 400)
    threads = [threading.Thread(target=run_part, args=(part, idxs)) for part, idxs in groups.items()]
    for th in threads: th.start()
    for th in threads: th.join()
    tm.join()
    rc2, out2 = rc2_holder["r"]
    model = out2.splitlines()
    counters["evaluations"] += len(cases)
    crashed = False
    for part, idxs in sorted(groups.items()):
        rc1, out1 = results[part]
        lines = out1.splitlines()
        if rc1 != 0:
            # crash (sanitizer, assertion) or no termination: find the case
            found = True; crashed = True
            nok = len([l for l in lines if l.startswith("out=")])
            bad = None
            if "NO-TERMINATION" in out1 and nok < len(idxs):
                # the per-case watchdog (20 s) fired: the case is the first one without an output line
                bad = (cases[idxs[nok]], "no result within the 20 s per-case watchdog: the merge does not terminate\n" + out1[-300:])
            for pos in ([] if bad else range(max(0, min(nok, len(idxs)) - 1), len(idxs))):
                one = os.path.join(ck.scratch, "one.txt"); open(one, "w").write(cases[idxs[pos]] + "\n")
                r, o = verif.sh([exes[part], one], timeout=60)
                if r != 0: bad = (cases[idxs[pos]], o); break
            ck.violation("multiway merge entry point crashes (sanitizer / assertion) or does not terminate on sorted inputs with size <= total",
                         {"case": bad[0] if bad else None, "log_tail": (bad[1] if bad else out1)[-2500:]})
            continue
        for pos, i2 in enumerate(idxs):
            if pos < len(lines): impl[i2] = lines[pos]
    if crashed:
        return impl
    for idx, c in enumerate(cases):
        a = impl[idx].strip() if idx < len(impl) else "<missing>"
        b = model[idx].strip() if idx < len(model) else "<missing>"
        t = c.split()
        k = int(t[5])
        for key, val in (("k", t[5]), ("alg", ALGS[int(t[3])]), ("entry", ("stable_" if t[1] == "1" else "") + "multiway_merge" + ("_sentinels" if t[2] == "1" else "")), ("etype", t[0]),
                         ("api_profile", "P" + (t[-1][2:].split(".")[0] if t[-1].startswith("v=") else "0"))):
            hist[key][val] = hist[key].get(val, 0) + 1
        if k >= 2 and int(t[4]) > 0 and sum(1 for x in t[6:6 + k] if x != "_") >= 2:
            distinct.add(c)
        v = property_verdict(c, a)
        counters["verdicts"] += 1
        if v is not None:
            found = True
            if ck.violations < 3:
                ck.violation("implementation violates the property: %s; result %s" % (v, a[:160]),
                             {"case": c, "impl": a, "model": b, "replay_cmd": "bin/check C05 --replay <this file>"})
            continue
        if "MODEL" in b or b == "<missing>":
            if len(soft) < 3:
                soft.append(("model self-check failed (model error or model differs from its specification): " + b[-80:],
                             {"correspondence": "ocaml/C05_driver.ml", "case": c, "model": b, "impl": a}))
            continue
        if a != b and canon(c, a) == canon(c, b):
            # the model runs C09's faithful loser-tree model, so normally even the choice among equivalent elements of
            # the unstable variants agrees; the property leaves that choice open, so this is counted, not reported
            counters["tie_choice_differs"] = counters.get("tie_choice_differs", 0) + 1
        if canon(c, a) != canon(c, b):
            if len(soft) < 3:
                soft.append(("implementation differs from the proven model (result itself satisfies the property): impl=%s model=%s" % (a[:120], b[:120]),
                             {"correspondence": "harness/C05/mwm_harness.cpp vs extracted model (C09 loser trees)", "case": c, "impl": a, "model": b}))
    return impl


# ---------------------------------------------------------------- huge totals (sparse mapping; see harness/C05/huge_harness.cpp)
HUGE_TOTALS = [2 ** 31, 2 ** 32, 2 ** 32 + 7, 2800000000]
def gen_huge(rng):
    """(harness line, equivalent model case): the merge of `len` elements only depends on the first `len` elements of every
    sequence, so the model (and the property verdict) run on the sequences truncated to `len` elements."""
    out = []
    combos = [(T, k, a, st) for T in HUGE_TOTALS for k in (2, 3, 4, 5, 8) for a in range(4) for st in (0, 1)]
    variants = [(c, se, ln) for c in "bw" for se in (0, 1) for ln in (0, 1, None)] if ck.thorough() else [None]
    for (T, k, a, st) in combos:
        for var in variants:
            if var is None: cls, se, ln = "bw"[rng.below(2)], rng.below(2), (0, 1, 7, 50, None)[rng.below(5)]
            else: cls, se, ln = var
            if ln is None: ln = rng.range(2, 300)
            if rng.below(2) == 0:
                sizes = [T // k] * k; sizes[-1] += T - sum(sizes)
            else:
                small = [rng.range(1, 2000) for _ in range(k - 1)]; sizes = small + [T - sum(small)]
                j = rng.below(k); sizes[j], sizes[-1] = sizes[-1], sizes[j]
            if k >= 3 and rng.below(6) == 0:
                j = rng.below(k); sizes[(j + 1) % k] += sizes[j]; sizes[j] = 0           # an empty sequence somewhere
            pre = [sorted(-rng.range(1, 9) for _ in range(rng.below(5))) if n else [] for n in sizes]
            hline = " ".join([cls, str(st), str(se), str(a), str(ln), str(k)] +
                             ["%d:%s" % (n, ",".join(map(str, p_)) if p_ else "_") for n, p_ in zip(sizes, pre)])
            trunc = [(p_ + [0] * ln)[:min(n, ln)] for n, p_ in zip(sizes, pre)]
            mcase = fmt_case("I", st, se, a, ln, trunc, [100] * k) + " v=0.0"
            out.append((hline, mcase))
    return out

def run_huge():
    global found
    pairs = gen_huge(rng)
    hf = os.path.join(ck.scratch, "huge_cases.txt"); mf = os.path.join(ck.scratch, "huge_model.txt")
    open(hf, "w").write("\n".join(h for h, _ in pairs) + "\n"); open(mf, "w").write("\n".join(m for _, m in pairs) + "\n")
    rc1, out1 = verif.sh([exes[4], hf], timeout=1200)
    rc2, out2 = verif.sh([drv, mf], timeout=3000)
    impl = out1.splitlines(); model = out2.splitlines()
    counters["evaluations"] += len(pairs); counters["huge_total_cases"] = len(pairs)
    if rc1 != 0:
        found = True
        nok = len([l for l in impl if l.startswith("out=")])
        ck.violation("multiway merge entry point crashes or does not terminate on inputs with a total size around 2^31..2^32 elements",
                     {"case": pairs[min(nok, len(pairs) - 1)][0], "harness": "harness/C05/huge_harness.cpp", "log_tail": out1[-2000:]})
        return
    for idx, (h, m) in enumerate(pairs):
        a = impl[idx].strip() if idx < len(impl) else "<missing>"
        b = model[idx].strip() if idx < len(model) else "<missing>"
        if a.startswith("MMAP-FAILED"):
            counters["huge_mmap_failed"] = counters.get("huge_mmap_failed", 0) + 1; continue
        v = property_verdict(m, a)
        counters["verdicts"] += 1
        if v is not None:
            found = True
            if ck.violations < 3:
                ck.violation("implementation violates the property on inputs with a huge total size: %s; result %s" % (v, a[:160]),
                             {"case": h, "harness": "harness/C05/huge_harness.cpp (sparse mapping: <n_i>:<leading keys>, rest 0)",
                              "equivalent_model_case": m[:400], "impl": a[:400], "model": b[:400]})
            continue
        if "MODEL" in b or b == "<missing>" or canon(m, a) != canon(m, b):
            if len(soft) < 3:
                soft.append(("huge totals: implementation differs from the model run on the first len elements of every sequence: impl=%s model=%s" % (a[:120], b[:120]),
                             {"correspondence": "harness/C05/huge_harness.cpp vs extracted model", "case": h, "impl": a[:400], "model": b[:400]}))
    if pairs and len(samples) < 6:
        samples.append({"huge_case": pairs[0][0], "result": impl[0][:200] if impl else None})


# ---------------------------------------------------------------- k = 65537 (indices beyond 16 bits), tree algorithms only
def run_big_k():
    """k = 65537 tiny sequences through the three loser-tree algorithms (bubble is quadratic in k). The extracted model's
    list-based tree would need minutes here, so these cases are judged by the property verdict alone, i.e. against the
    proven specification (stable: the sorted (key, sequence, position) prefix; all: sorted interleaving, cursors, minimality)."""
    global found
    k = 65537
    bc = []
    for a in (0, 1, 2):
        for st in (0, 1):
            for rep in range(3 if ck.thorough() else 1):
                seqs = tiny_seqs(rng, k)
                total = sum(len(x) for x in seqs)
                ln = total if rng.below(2) == 0 else rng.range(total // 2, total)
                bc.append(fmt_case("TB"[rng.below(2)], st, 1 if a == 2 else rng.below(2), a, ln, seqs, [60] * k) + " v=0.0")
    f = os.path.join(ck.scratch, "bigk.txt"); open(f, "w").write("\n".join(bc) + "\n")
    rc, out = verif.sh([exes[0], f], timeout=600)
    lines = [l for l in out.splitlines() if l.startswith("out=")]
    counters["evaluations"] += len(bc); counters["k65537_cases"] = len(bc)
    if rc != 0:
        found = True
        c = bc[min(len(lines), len(bc) - 1)]
        ck.violation("multiway merge entry point crashes or does not terminate with k = 65537 sequences",
                     {"case": c, "log_tail": out[-800:] if len(out) < 100000 else out[-800:]})
        return
    for c, a in zip(bc, lines):
        v = property_verdict(c, a.strip()); counters["verdicts"] += 1
        if v is not None:
            found = True
            if ck.violations < 3:
                ck.violation("implementation violates the property with k = 65537 sequences: %s" % v, {"case": c, "impl": a[:400]})

import concurrent.futures
def _build(part):
    if part == 0: return ck.build_cpp("c05_harness", ["harness/C05/mwm_harness.cpp"])
    if part == 4: return ck.build_cpp("c05_huge", ["harness/C05/huge_harness.cpp"])
    return ck.build_cpp("c05_api%d" % part, ["harness/C05/api_harness.cpp"], extra=["-DAPI_PART=%d" % part])
with concurrent.futures.ThreadPoolExecutor(max_workers=4) as pool:
    built = list(pool.map(_build, [4, 0, 1, 2, 3]))
built = built[1:] + built[:1]
exes = {part: b[0] for part, b in enumerate(built)}
exe = None if any(b[0] is None for b in built) else exes[0]
log = "\n".join(b[1][-1500:] for b in built if b[0] is None)
drv, dlog = ck.ocaml_driver("C05")
if drv is None:
    # The generic rule compiles every proof file of C05 first; when a proof (e.g. the table sweep) breaks, build the
    # model alone so that the correspondence run can still look for a failing input.
    def fallback_driver():
        coq = os.path.join(verif.VERIF, "coq")
        with verif.Lock(os.path.join(coq, ".lock")):
            rc, out = verif.sh(["make", "-j4", "C05/C09Model.vo"], cwd=coq, timeout=900)
            if rc != 0: return None, out
            rc, out = verif.sh(["coqc", "-Q", ".", "TLXV", "Extract_C05.v"], cwd=coq, timeout=900)
            if rc != 0: return None, out
            bdir = os.path.join(ck.scratch, "drv"); os.makedirs(bdir, exist_ok=True)
            import shutil
            for fn in ("gen/C05_model.ml", "gen/C05_model.mli", "C05_driver.ml"):
                shutil.copy(os.path.join(verif.VERIF, "ocaml", fn), bdir)
        rc, out = verif.sh(["ocamlfind", "ocamlopt", "-w", "-a", "-package", "str,unix", "-linkpkg", "C05_model.mli", "C05_model.ml",
                            "C05_driver.ml", "-o", "C05_driver"], cwd=bdir, timeout=900)
        p = os.path.join(bdir, "C05_driver")
        return (p if rc == 0 and os.path.exists(p) else None), out
    drv, dlog2 = fallback_driver()
    dlog = dlog + "\n--- fallback ---\n" + dlog2
if exe is None:
    ck.violation("correspondence harness does not compile against /repo", {"correspondence": "harness/C05/mwm_harness.cpp, api_harness.cpp, huge_harness.cpp", "log": log[-3000:]}, no_input=True)
elif drv is None:
    ck.violation("extracted model/driver does not build", {"correspondence": "ocaml/C05_driver.ml", "log": dlog[-2000:]}, no_input=True)
else:
    impl = run_cases(cases, "main")
    for i in sorted(set((0, ncorpus + 7, len(cases) // 2, len(cases) - 1))):
        if 0 <= i < len(impl) and i < len(cases):
            samples.append({"case": cases[i], "result": impl[i]})
    if not ck.replay:
        run_huge()
        run_big_k()
    if ck.thorough() and not ck.replay and not found:
        run_cases(exhaustive_ties(), "ties_all")
        ck.coverage["exhaustive_tie_family"] = "all k=3 inputs over the 10 sorted words of length <= 2 on 3 keys (every length, guarded/combined/sentinel), all k=4 inputs over the 7 duplicate-free words (3 longest lengths, guarded/combined)"
    # model-guided search: a broken proof / translator / correspondence without a failing input so far -> sweep the
    # bounded-exhaustive tie family (the automata's edge conditions) before giving up
    elif not found and not ck.replay and (soft or translator_error is not None or (pr is not None and not pr["ok"])):
        run_cases(exhaustive_ties(), "ties")
        ck.coverage["model_guided_search"] = "bounded-exhaustive tie family run because a proof/correspondence broke"
    # correspondence / model problems are reported only when no property-violating input was found
    if not found:
        for what, rep in soft[:2]:
            ck.violation(what, rep, no_input=True)

if translator_error is not None and not found:
    ck.violation("translator could not re-derive the 3-way/4-way automata from /repo: " + translator_error[:300],
                 {"theorem_or_correspondence": "translate/merge34.py", "detail": translator_error[-2000:]}, no_input=True)
if pr is not None and not pr["ok"]:
    ck.proof_broken(found)

ck.finish({
    "evaluations": counters["evaluations"],
    "distinct_nontrivial": len(distinct),
    "property_verdicts_on_impl": counters["verdicts"],
    "unstable_results_differing_from_c09_backed_model_in_tie_choice_only": counters.get("tie_choice_differs", 0),
    "rule": "cases = (element type, entry point, algorithm, length, sequences[, sentinels]); small inputs (k in 0..9 and 17; medium family also k = 33, 64, 65; a many-sequences family k = 255, 256, 257, 300, 1000 and 65537; keys shifted to negative / large values in a quarter of the inputs; six shapes: tiny alphabet, all equal, one dominant sequence, wide keys, many empty sequences, staircase) are run for EVERY length 0..total, medium inputs for three lengths under all 16 algorithm/entry-point combinations; k = 3, 4 tie patterns (sorted words of length <= 2 over 3 keys) for every length through the stable entry points. Each case runs on /repo's entry point (checking iterators, ASan+UBSan) and on the extracted Coq model; lines are compared (fully for stable entry points, keys + returned position otherwise; the model runs C09's loser-tree model, and the number of unstable results differing from it in the tie choice only is recorded) and the property is decided directly on the implementation's line. non-trivial = k >= 2, at least two non-empty sequences and length > 0; distinct = distinct case text.",
    "samples": samples,
    "input_distribution": hist,
    "api_surface": API_SURFACE,
    "many_sequences": "k in 255, 256, 257, 300, 1000 with every algorithm, stable and unstable, tiny sequences (0-3 elements), compared with the extracted model as every other case; k = 65537 (%d cases, loser-tree algorithms only: bubble is quadratic in k) judged by the property verdict alone, i.e. against the proven specification, because the extracted model's list-based tree needs minutes there; every case runs under a 20 s watchdog and a merge that does not come back is reported with that case as replay" % counters.get("k65537_cases", 0),
    "huge_totals": "family of %d cases with total input sizes 2^31, 2^32, 2^32+7 and 2.8e9 elements (k in 2,3,4,5,8; every algorithm; stable and unstable; sentinel and plain entry points; 1-byte elements = copy-based trees and 24-byte records = pointer-based trees) carved from one sparse MAP_NORESERVE mapping; since a merge of len elements depends only on the first len elements of each sequence, these cases are judged against the extracted model and the property verdict run on the sequences truncated to len elements (the theorems themselves have no size bound other than k <= 2^30)" % counters.get("huge_total_cases", 0),
}, assumptions=[
    "loser trees enter the general theorems through an interface (winner = live source with minimal head, stable: smallest index among equivalent); the interface is instantiated with C09's model of loser_tree.hpp (guarded classes: every input; unguarded classes: under C09's key precondition) and with a reference tournament; the correspondence run executes the C09-backed model (copy classes for I/T, pointer classes for B) and cross-checks it with the reference tournament",
    "std::lower_bound / std::upper_bound / std::copy modelled by their specification",
    "translator: token-level expansion of TLX_MERGE3CASE / TLX_MERGE4CASE / TLX_DECISION definitions and invocations",
    "extraction: ExtrOcamlBasic only; nat/list stay Coq inductives; element comparison is OCaml integer <",
])
