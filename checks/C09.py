#!/usr/bin/env python3
"""C09 — loser trees: Coq tournament-invariant theorems + correspondence of the extracted model with the
eight real classes (bounded-exhaustive and random replace histories, ASan/UBSan), the implementation's
reported winners being judged by the Coq-extracted, proved checker."""
import itertools, json, os, re, sys
HERE = os.path.dirname(os.path.abspath(__file__))
sys.path.insert(0, os.path.join(HERE, "..", "lib"))
import verif

ck = verif.Check("C09")
rng = ck.rng
# the three harnesses are compiled (from /repo's working tree, into ck.scratch) in background threads while Coq re-checks the
# theorems and the cases are generated: at most three compiler jobs next to the Coq build
import threading
_built = {}
def _bg_build(name, src, flags=None):
    _built[name] = ck.build_cpp(name, [src], flags=flags)
_O0 = ["-std=c++17", "-O0", "-g", "-fsanitize=address,undefined", "-fno-sanitize-recover=all", "-fno-omit-frame-pointer"]
_threads = [threading.Thread(target=_bg_build, args=("c09_harness", "harness/C09/lt_harness.cpp", None if ck.thorough() else _O0)),
            threading.Thread(target=_bg_build, args=("c09_big_k", "harness/C09/big_k.cpp")),
            threading.Thread(target=_bg_build, args=("c09_large_k", "harness/C09/large_k.cpp"))]
for _t in _threads:
    _t.start()
pr = ck.prove()

VARIANTS = [p + g + s for p in "CP" for g in "GU" for s in "SN"]
# "V": the unguarded classes driven outside their key precondition, the way multiway_merge_loser_tree_combined does
GENERAL = [p + "V" + s for p in "CP" for s in "SN"]
# (class letter W of the harness - unstable unguarded trees whose real minimum is merely EQUIVALENT to the padding key while larger
# keys are present - is a probe mode of the audit, docs/audit/C09.md: there the real code lets a padding leaf win; no caller may
# rely on it and the check does not generate it)

# ---------------------------------------------------------------- generators
def case_seqs(c):
    """the key sequences of a case line (skipping class, sentinel and the optional registration order o=...)"""
    return [x for x in c.split()[2:] if not (x.startswith("o=") or x.startswith("m="))]

def seq_txt(s):
    return ",".join(map(str, s)) if s else "-"

def case_txt(v, sentinel, seqs):
    return "%s %d %s" % (v, sentinel, " ".join(seq_txt(s) for s in seqs))

_seq_cache = {}
def all_seqs(univ, lo, hi):
    key = (univ, lo, hi)
    if key not in _seq_cache:
        out = []
        for n in range(lo, hi + 1):
            out.extend(itertools.product(range(1, univ + 1), repeat=n))
        _seq_cache[key] = [seq_txt(s) for s in out]
    return _seq_cache[key]

def exhaustive(k, univ, maxlen, out, hist):
    """every k-tuple of key sequences over 1..univ with lengths 0..maxlen (unguarded: 1..maxlen, sentinel =
    univ and univ + 1: equal to / above the largest real key)"""
    for v in VARIANTS:
        guarded = v[1] == "G"
        ss = all_seqs(univ, 0 if guarded else 1, maxlen)
        for sent in ([0] if guarded else [univ, univ + 1]):
            head = "%s %d " % (v, sent)
            for tup in itertools.product(ss, repeat=k):
                out.append(head + " ".join(tup))
    hist["exhaustive k=%d keys<=%d len<=%d" % (k, univ, maxlen)] = True

def exhaustive_general(k, univ, maxlen, out, hist):
    """unguarded classes, keys 1..univ, sentinel anywhere in 1..univ (keys above, equal to and below it)"""
    ss = all_seqs(univ, 1, maxlen)
    for v in GENERAL:
        for sent in range(1, univ + 1):
            head = "%s %d " % (v, sent)
            for tup in itertools.product(ss, repeat=k):
                out.append(head + " ".join(tup))
    hist["exhaustive any-keys k=%d keys<=%d len<=%d" % (k, univ, maxlen)] = True

def random_general(rng):
    v = rng.choice(GENERAL)
    k = rng.choice([1, 2, 3, 4, 5, 6, 7, 8, 9, 16, 17, 33])
    univ = rng.choice([2, 3, 5, 50])
    sent = rng.range(1, univ)
    maxlen = rng.choice([3, 8, 20])
    seqs = []
    for _ in range(k):
        s = sorted(rng.range(1, univ) for _ in range(rng.range(1, maxlen)))
        if rng.chance(1, 3):
            s = [rng.range(1, univ) for _ in s]
        seqs.append(s)
    return case_txt(v, sent, seqs)

def random_case(rng):
    if rng.chance(1, 5):
        return random_general(rng)
    v = rng.choice(VARIANTS)
    guarded = v[1] == "G"
    k = rng.choice([1, 2, 3, 4, 5, 6, 7, 8, 9, 16, 17, 17, 16, 9, 15, 31, 32, 33])
    big = rng.chance(1, 40)
    if big:
        k = rng.choice([63, 64, 65, 100, 129])
    mode = rng.below(5)
    univ = [1, 2, 3, 3, 50][mode]
    maxlen = 3 if big else rng.choice([3, 8, 20])
    sorted_runs = rng.chance(1, 2)
    sent = 0 if guarded else univ + rng.below(2)
    seqs = []
    for _ in range(k):
        n = rng.range(0 if guarded else 1, maxlen)
        if guarded and rng.chance(1, 6):
            n = 0
        s = [rng.range(1, univ) for _ in range(n)]
        if sorted_runs:
            s.sort()
        if not guarded and rng.chance(2, 3):
            s.append(sent)   # sequences closed by a sentinel-valued key, as the merges do
        seqs.append(s)
    return case_txt(v, sent, seqs)


# ---------------------------------------------------------------- API surface: which overload / instantiation a case runs
ELEMS_COPY = ["e1", "e8", "e16"]        # sizeof <= 2*sizeof(size_t): the switch templates pick the copy classes
ELEMS_PTR = ["e17", "e24"]              # larger: pointer classes
CMPS = ["lt", "gt", "rk+", "rk-", "df"]     # rk = ByRank: owns heap state, destructor poisons it

def flavour(rng, cls):
    """element type, comparator and how the class is named, drawn from the seed for every case.
    s = through tlx::LoserTree<> / tlx::LoserTreeUnguarded<> (P|C must agree with sizeof), m = move-constructed (PG classes)."""
    via = rng.choice(["d", "d", "s", "s", "m"] if cls[1] == "G" else ["d", "s"])
    cmp = rng.choice(CMPS)
    # KeyGreater / ByRank are instantiated with e8 (copy-sized) and e17 (pointer-sized) only (harness build time)
    full = cmp in ("lt", "df")
    copy_e = ELEMS_COPY if full else ["e8"]
    ptr_e = ELEMS_PTR if full else ["e17"]
    if via == "s":
        elem = rng.choice(ptr_e if cls[0] == "P" else copy_e)
    else:
        elem = rng.choice(copy_e + ptr_e)
    # where the caller keeps the keys: p = separate storage, l = one slot per player overwritten in place (same address passed
    # again), t = heap temporary freed right after the call (copy classes only: they must have copied the key)
    store = rng.choice(["p", "l", "l"] if cls[0] == "P" else ["p", "l", "t", "t"])
    # extra: bit 1 = init() twice in a row, bit 2 = guarded: three more delete_min_insert(nullptr, true) after the last key
    # bit 4 = the comparator is handed to the constructor as a temporary that dies (state poisoned) before the tree is used
    # bit 8 = reuse: the same tree object is used for a second run (every player registered again with the next player's sequence)
    extra = rng.choice([0, 0, 1, 2, 3]) + (4 if rng.chance(1, 2) else 0) + (8 if rng.chance(1, 4) else 0)
    return "%s:%s:%s:%s:%s:%d" % (cls, elem, cmp, via, store, extra)

def add_flavours(rng, cases, start):
    for i in range(start, len(cases)):
        cls, _, rest = cases[i].partition(" ")
        if ":" not in cls:
            cases[i] = flavour(rng, cls) + " " + rest

def flip_keys(c):
    """with a reversed comparator (gt, st-) 'small' means large: mirror the keys (1..99 -> 99..1) and the sentinel so that
    the generators' intent (sentinel not less than the keys, sorted runs, ...) survives"""
    t = c.split()
    if t[0].split(":")[2] not in ("gt", "st-", "rk-"):
        return c
    m = lambda x: str(100 - int(x))
    out = [t[0], "0" if t[0][1] == "G" else m(t[1])]
    for sq in t[2:]:
        out.append(sq if sq == "-" or "=" in sq else ",".join(m(x) for x in sq.split(",")))
    return " ".join(out)

def add_orders(rng, cases, start):
    """registration order of the insert_start calls, from the seed: ascending (no token), descending, or shuffled"""
    for i in range(start, len(cases)):
        t = cases[i].split()
        k = len(t) - 2
        if k < 2 or t[2].startswith("o="):
            continue
        r = rng.below(5)
        if r < 2:
            continue
        order = list(range(k))
        if r == 2:
            order.reverse()
        else:
            for j in range(k - 1, 0, -1):
                x = rng.below(j + 1)
                order[j], order[x] = order[x], order[j]
            if order == list(range(k)):
                order.reverse()
        if rng.chance(1, 6):
            # re-registration: some player is listed a second time, earlier in the order
            order.insert(rng.below(len(order)), order[rng.below(len(order))])
        cases[i] = " ".join(t[:2] + ["o=" + ",".join(map(str, order))] + t[2:])

def add_moves(rng, cases, start):
    """move points: at up to three points of the history (before the first insert_start, between registrations, after init(),
    between delete_min_insert calls) the tree is move-constructed into a fresh object; the model treats it as the identity"""
    for i in range(start, len(cases)):
        if not rng.chance(1, 2):
            continue
        t = cases[i].split()
        at = 3 if t[2].startswith("o=") else 2
        sq = t[at:]
        nreg = len(t[2][2:].split(",")) if at == 3 else len(sq)
        nkeys = sum(0 if q == "-" else q.count(",") + 1 for q in sq)
        pts = set()
        for _ in range(rng.range(1, 3)):
            r = rng.below(4)
            if r == 0: pts.add(rng.below(nreg + 1))                 # during registration (0 = before the first insert_start)
            elif r == 1: pts.add(rng.range(1, max(1, nreg - 1)))    # strictly between two registrations when there are two
            elif r == 2: pts.add(nreg + 1)                          # right after init()
            else: pts.add(nreg + 2 + rng.below(nkeys + 1))          # between delete_min_insert calls
        cases[i] = " ".join(t[:at] + ["m=" + ",".join(map(str, sorted(pts)))] + sq)

REGIME_K = [1, 2, 3, 4, 5, 6, 7, 8, 9, 16, 17, 32, 33, 65]
def regimes(rng, out, hist):
    """directed cases, every class at every k of REGIME_K: players exhausted from the start at LEFT positions with live
    right neighbours, all players exhausted, a single live player at each end, equal keys everywhere, keys equal to the
    sentinel (unguarded), non-power-of-two k whose padding leaves meet live / exhausted players in the tournament"""
    n0 = len(out)
    for v in VARIANTS + GENERAL:
        guarded = v[1] == "G"
        for k in REGIME_K:
            pats = []
            if guarded:
                for left in sorted(set([1, k // 2, k - 1])):
                    if 0 < left < k:
                        pats.append([[]] * left + [[2, 2]] * (k - left))                      # exhausted left block, live right block
                        pats.append([[] if i % 2 == 0 else [1 + i % 3, 3] for i in range(k)])  # exhausted at every even (left) position
                pats.append([[]] * k)                                                          # all exhausted
                pats.append([[]] * (k - 1) + [[1, 1, 1]])                                      # only the last player lives
                pats.append([[1, 1, 1]] + [[]] * (k - 1))                                      # only the first player lives
                pats.append([[2, 2]] * k)                                                      # equal keys everywhere
                pats.append([[3 - (i % 3)] for i in range(k)])
                for p in pats:
                    out.append(case_txt(v, 0, p))
            else:
                for sent in (2, 3):
                    out.append(case_txt(v, sent, [[2, 2, 2]] * k))                             # all keys equal (to the sentinel when sent = 2)
                    out.append(case_txt(v, sent, [[1, 2, 2]] * k))
                    out.append(case_txt(v, sent, [[2, 2] if i % 2 == 0 else [1, 2, 2] for i in range(k)]))
                    out.append(case_txt(v, sent, [[1, 1, 2]] + [[2, 2]] * (k - 1)))
                    out.append(case_txt(v, sent, [[2, 2]] * (k - 1) + [[1, 1, 2]]))             # minimum at the rightmost real leaf, next to the padding
    hist["directed regimes (exhausted-left, all exhausted, single live, all equal, keys = sentinel) k in %s" % REGIME_K] = True
    return len(out) - n0

hist = {}
cases = [l.strip() for l in open(os.path.join(verif.VERIF, "corpus", "C09", "cases.txt")) if l.strip() and not l.startswith("#")]
ncorpus = len(cases)
if ck.replay:
    cases = [json.load(open(ck.replay))["case"]]
    ncorpus = len(cases)
else:
    exhaustive(1, 3, 3, cases, hist)
    exhaustive(2, 3, 3, cases, hist)
    exhaustive(3, 2, 3, cases, hist)
    exhaustive(3, 3, 2, cases, hist)
    exhaustive(4, 2, 2, cases, hist)
    for k in (5, 6, 7, 8):
        exhaustive(k, 2, 1, cases, hist)
    exhaustive(9, 1, 1, cases, hist)
    exhaustive_general(1, 3, 3, cases, hist)
    exhaustive_general(2, 3, 3, cases, hist)
    exhaustive_general(3, 3, 2, cases, hist)
    exhaustive_general(3, 2, 3, cases, hist)
    exhaustive_general(5, 2, 1, cases, hist)
    if ck.thorough():
        exhaustive(3, 3, 3, cases, hist)
        exhaustive(4, 2, 3, cases, hist)
        exhaustive(4, 3, 2, cases, hist)
        exhaustive(5, 2, 2, cases, hist)
        exhaustive(9, 2, 1, cases, hist)
        exhaustive_general(3, 3, 3, cases, hist)
        exhaustive_general(4, 2, 3, cases, hist)
        exhaustive_general(9, 2, 1, cases, hist)
    nreg = regimes(rng, cases, hist)
    nexh = len(cases) - ncorpus
    NR = 150000 if ck.thorough() else 10000
    for _ in range(NR):
        cases.append(random_case(rng))
    add_flavours(rng, cases, ncorpus)
    add_orders(rng, cases, ncorpus)
    add_moves(rng, cases, ncorpus)
    for i in range(ncorpus, len(cases)):
        cases[i] = flip_keys(cases[i])
casefile = os.path.join(ck.scratch, "cases.txt")
with open(casefile, "w") as f:
    f.write("\n".join(cases) + "\n")

# ---------------------------------------------------------------- run both sides
def is_nontrivial(c):
    seqs = case_seqs(c)
    k = len(seqs)
    if k < 2:
        return False
    seen = set()
    tie = False
    for s in seqs:
        if s == "-":
            continue
        ks = set(s.split(","))
        if ks & seen:
            tie = True
            break
        seen |= ks
    return tie or "-" in seqs or (k & (k - 1)) != 0

def canon(v, line):
    """what the property fixes: for the guarded classes the last report (made when no live player remains)
    is left open by the property"""
    parts = []
    for part in line.split("|"):
        t = part.split()
        if v[1] == "G" and t:
            t = t[:-1]
        parts.append(" ".join(t))
    return " | ".join(parts)


traits = "?"
def api_surface():
    g = lambda k: fstats.get(k, 0)
    cls = lambda c: sum(n for v, n in stats.items() if v[0] == c[0] and (v[1] == c[1] or (c[1] == "U" and v[1] == "V")) and v[2] == c[2])
    rows = []
    names = {"CGN": "LoserTreeCopy<false,T,Cmp>", "CGS": "LoserTreeCopy<true,T,Cmp>", "PGN": "LoserTreePointer<false,T,Cmp>",
             "PGS": "LoserTreePointer<true,T,Cmp>", "CUN": "LoserTreeCopyUnguarded<false,T,Cmp>", "CUS": "LoserTreeCopyUnguarded<true,T,Cmp>",
             "PUN": "LoserTreePointerUnguarded<false,T,Cmp>", "PUS": "LoserTreePointerUnguarded<true,T,Cmp>"}
    for c, nme in sorted(names.items()):
        rows.append({"api": "class tlx::" + nme + " (and its base class): ctor, insert_start, init -> init_winner, min_source, delete_min_insert",
                     "called": cls(c) > 0, "cases": cls(c)})
    rows += [
        {"api": "tlx::LoserTree<Stable,T,Cmp> switch alias -> copy classes (sizeof(T) in {1,8,16})", "called": g("switch->copy") > 0, "cases": g("switch->copy")},
        {"api": "tlx::LoserTree<Stable,T,Cmp> switch alias -> pointer classes (sizeof(T) in {17,24})", "called": g("switch->pointer") > 0, "cases": g("switch->pointer")},
        {"api": "tlx::LoserTreeUnguarded<Stable,T,Cmp> switch alias -> copy classes", "called": g("switch->copy unguarded") > 0, "cases": g("switch->copy unguarded")},
        {"api": "tlx::LoserTreeUnguarded<Stable,T,Cmp> switch alias -> pointer classes", "called": g("switch->pointer unguarded") > 0, "cases": g("switch->pointer unguarded")},
        {"api": "guarded ctor (k, cmp) / unguarded ctor (k, sentinel, cmp) with an explicit comparator object: KeyLess, KeyGreater, ByRank (+/-, owns heap state)",
         "called": True, "cases": g("cmp=lt") + g("cmp=gt") + g("cmp=rk+") + g("cmp=rk-")},
        {"api": "ctor with the default comparator argument and default template argument Comparator = std::less<ValueType>", "called": g("cmp=df") > 0, "cases": g("cmp=df")},
        {"api": "move construction of the tree into a fresh object at any point of the history (before the first insert_start, between "
                "insert_start calls, before / after init(), between delete_min_insert calls), old object destroyed, run continued on the new one; "
                "std::is_move_constructible on this tree: " + traits,
         "called": g("move between insert_start calls") > 0,
         "cases": {"per point": {k2[5:]: n for k2, n in sorted(fstats.items()) if k2.startswith("move ")},
                   "per class family": {t: g("moved/" + t) for t in ("CG", "PG", "CU", "PU", "CV", "PV")}, "via=m (moved before use)": g("via=m")}},
        {"api": "constructor given a TEMPORARY comparator that owns heap state and poisons it in its destructor (the tree must hold a copy), next to the long-lived comparator mode",
         "called": sum(g("temporary ByRank comparator/" + t) for t in ("CG", "PG", "CU", "PU", "CV", "PV")) > 0,
         "cases": {"temporary, any explicit comparator": {t: g("temporary comparator/" + t) for t in ("CG", "PG", "CU", "PU", "CV", "PV")},
                   "temporary ByRank": {t: g("temporary ByRank comparator/" + t) for t in ("CG", "PG", "CU", "PU", "CV", "PV")}}},
        {"api": "insert_start(const ValueType* keyp, source, sup) with keyp != nullptr, sup = false", "called": True, "cases": sum(stats.values())},
        {"api": "key storage: every key in its own storage, pointers into the sequences (as multiway_merge)", "called": g("store=p") > 0, "cases": g("store=p")},
        {"api": "key storage: ONE slot per player, overwritten in place, the same address passed again to delete_min_insert (all 12 class/regime tags; "
                "the pointer classes keep &slot[i])", "called": g("store=l") > 0,
         "cases": {v: g(v + "/store=l") for v in sorted(stats)}},
        {"api": "key storage: heap temporary freed right after insert_start / delete_min_insert returns (copy classes: the key must have been copied)",
         "called": g("store=t") > 0, "cases": {v: g(v + "/store=t") for v in sorted(stats) if v[0] == "C"}},
        {"api": "insert_start calls in ascending / descending / shuffled player order (the index is an argument), exhausted players at any position",
         "called": g("order=descending") > 0 and g("order=shuffled") > 0,
         "cases": {"ascending": g("order=ascending"), "descending": g("order=descending"), "shuffled": g("order=shuffled"),
                   "per class non-ascending": {v: g(v + "/order=descending") + g(v + "/order=shuffled") for v in sorted(stats)}}},
        {"api": "a player re-registered (insert_start twice; guarded classes: first as exhausted, then with its key)", "called": g("re-registration/CG") + g("re-registration/PG") > 0,
         "cases": {t: g("re-registration/" + t) for t in ("CG", "PG", "CU", "PU", "CV", "PV")}},
        {"api": "the same tree object used twice: complete run, then insert_start for every player again (other keys, other exhausted players), init(), second run",
         "called": g("reuse/CG") > 0, "cases": {t: g("reuse/" + t) for t in ("CG", "PG", "CU", "PU", "CV", "PV")}},
        {"api": "init() called twice in a row (crash / result unchanged)", "called": g("init() twice") > 0, "cases": g("init() twice")},
        {"api": "guarded classes: delete_min_insert(nullptr, true) + min_source() three more times after the last key (no live player; crash check only)",
         "called": g("overrun: delete_min_insert(nullptr,true) after the last key") > 0, "cases": g("overrun: delete_min_insert(nullptr,true) after the last key")},
        {"api": "insert_start(nullptr, source, true) (player exhausted from the start; guarded classes)", "called": g("insert_start(nullptr,i,true)") > 0, "cases": g("insert_start(nullptr,i,true)")},
        {"api": "init() / init_winner(root) (init_winner is public but only meaningful from init(); reached through init())", "called": True, "cases": sum(stats.values())},
        {"api": "min_source() after init() and after every delete_min_insert()", "called": True, "cases": sum(stats.values())},
        {"api": "delete_min_insert(const ValueType* keyp, false)", "called": True, "cases": sum(stats.values())},
        {"api": "delete_min_insert(nullptr, true) (guarded classes)", "called": g("delete_min_insert(nullptr,true)") > 0, "cases": g("delete_min_insert(nullptr,true)")},
        {"api": "ValueType of 1 / 8 / 16 / 17 / 24 bytes", "called": all(g(e) > 0 for e in ELEMS_COPY + ELEMS_PTR),
         "cases": {e: g(e) for e in ELEMS_COPY + ELEMS_PTR}},
        {"api": "number of players", "called": True, "cases": "1..%d" % (max(kstats) if kstats else 0)},
        {"api": "copy construction / copy assignment of the trees", "called": False,
         "cases": "deleted for the pointer classes, implicitly unavailable (SimpleVector is move-only) for the copy classes: not part of the usable surface"},
        {"api": "LoserTreePointerUnguardedBase constructed from a temporary sentinel (stores &sentinel)", "called": False,
         "cases": "caller contract: the sentinel object must outlive the tree; the harness keeps it alive (as multiway_merge does)"},
    ]
    return rows


# ---------------------------------------------------------------- known finding: more than 2^30 players
# Source = uint32_t; the constructors size the node array as 2 * k_ (k_ = round_up_to_power_of_two(k)) in 32-bit arithmetic.
# 2^30 < k <= 2^31: the array gets 0 elements and the constructor's padding loop writes out of bounds (SEGV); 2^31 < k < 2^32:
# round_up_to_power_of_two wraps to 0, the tree is "constructed" with no node and player 0 cannot be registered.  Same root
# cause, one key.  Every theorem of Properties_C09.v carries the hypothesis ik <= 2^30 for this reason.  The witnesses need no
# memory (the allocation is of size 0) and run in child processes; a repaired tree would fail to allocate (or succeed) instead.
KF_KEY = "players-above-2^30"
BIGK = [(0, "LoserTreePointer<false,int>", "2^30+1"), (1, "LoserTreeCopy<true,int>", "2^30+1"),
        (2, "LoserTreePointerUnguarded<true,int>", "2^30+1"), (3, "LoserTreeCopyUnguarded<false,int>", "2^30+1"),
        (4, "LoserTreePointer<true,int>", "2^31+1"), (5, "LoserTreeCopy<false,int>", "2^31+1"),
        (6, "LoserTreePointerUnguarded<false,int>", "2^31+1"), (7, "LoserTreeCopyUnguarded<true,int>", "2^31+1")]
bigk_report = {}
def probe_big_k():
    exe2, log2 = _built["c09_big_k"]
    if exe2 is None:
        ck.violation("the > 2^30 players witness harness does not compile against /repo",
                     {"correspondence": "harness/C09/big_k.cpp", "log": log2[-1500:]}, no_input=True)
        return
    failing = []
    for w, cls, kk in BIGK:
        rc, out = verif.sh([exe2, str(w)], timeout=60)
        proper = any(m in out for m in ("out of memory", "allocation-size-too-big", "exceeds maximum supported size", "bad_alloc"))
        if (rc == 0 and "usable" in out) or "exception " in out or proper:
            verdict = "ok (usable, or refused by an exception / allocation failure)"
        elif rc == 124:
            verdict = "inconclusive (timeout)"
        else:
            lines = [l.strip() for l in out.splitlines() if "ERROR: AddressSanitizer" in l or "Assertion" in l or "runtime error" in l]
            what = (lines[0] if lines else "exit status %d" % rc)
            what = re.sub(r"==\d+==", "", what.split(" (pc ")[0])
            what = re.sub(r" on unknown address 0x[0-9a-f]+", " on an unmapped address", what).strip()
            if "Assertion" in what:
                what = "constructed with an empty node array; " + what[what.find("Assertion"):][:90]
            verdict = "FAILS: " + what[:160]
            failing.append("%s(k = %s): %s" % (cls, kk, what[:120]))
        bigk_report["%s k=%s" % (cls, kk)] = verdict
    if failing:
        ck.violation("more than 2^30 players: 32-bit size arithmetic in the loser tree constructors (2 * k_ and round_up_to_power_of_two wrap); "
                     "%d of %d zero-memory witnesses fail, e.g. %s" % (len(failing), len(BIGK), failing[0]),
                     {"case": "tlx::LoserTreePointer<false,int> lt((1u << 30) + 1);  (harness/C09/big_k.cpp <witness 0..7>)",
                      "witnesses": dict(bigk_report)}, key=KF_KEY)


# ---------------------------------------------------------------- large numbers of players, and round_up_to_power_of_two
# k in {65536, 65537, 70000, 131073}: the extracted model (list arrays) is too slow there, so harness/C09/large_k.cpp judges every
# reported winner directly against the property (live, holds a minimum, stable: smallest index).  It also prints
# round_up_to_power_of_two(k) around every power of two up to 2^31, compared here with the model's definition 2^ceil(log2 k).
largek_report = {"histories": 0, "rup2_values_compared": 0}
def probe_large_k():
    global found
    exe3, log3 = _built["c09_large_k"]
    if exe3 is None:
        ck.violation("the large-k harness does not compile against /repo", {"correspondence": "harness/C09/large_k.cpp", "log": log3[-1500:]}, no_input=True)
        return
    rc, out = verif.sh([exe3], timeout=600)
    bad_rup = []
    for line in out.splitlines():
        if line.startswith("rup2 "):
            _, x, y = line.split()
            x = int(x); y = int(y)
            largek_report["rup2_values_compared"] += 1
            if y != 1 << (x - 1).bit_length():
                bad_rup.append((x, y, 1 << (x - 1).bit_length()))
        elif ": " in line and " k=" in line:
            largek_report["histories"] += 1
            if not line.endswith(": ok"):
                found = True
                ck.violation("large number of players: " + line[:200], {"case": "harness/C09/large_k.cpp: " + line.split(":")[0], "impl": line})
    if rc != 0:
        found = True
        ck.violation("a loser tree crashes (ASan/UBSan/assert) with a large number of players",
                     {"case": "harness/C09/large_k.cpp (k in 65536, 65537, 70000, 131073)", "log_tail": out[-2000:]})
    if bad_rup:
        x, y, z = bad_rup[0]
        ck.violation("k_ = round_up_to_power_of_two(k) differs from the model's 2^ceil(log2 k): round_up_to_power_of_two(%d) = %d, model %d (%d values differ)"
                     % (x, y, z, len(bad_rup)),
                     {"correspondence": "coq/C09/LoserTree.v round_up_pow2 vs tlx::round_up_to_power_of_two(unsigned)", "first_disagreeing_case": "k = %d" % x,
                      "all": bad_rup[:20]}, no_input=not found)
    largek_report["judge"] = ("direct check of the property in the harness (live player, minimum, smallest index for the stable classes); "
                              "the extracted model is not run at these k")

found = False
for _t in _threads:
    _t.join()
exe, log = _built["c09_harness"]
drv, dlog = ck.ocaml_driver("C09")
if exe is not None:
    traits = verif.sh([exe, "--traits"], timeout=30)[1].strip()
stats = {v: 0 for v in VARIANTS + GENERAL}
kstats = {}
fstats = {}
nontrivial = set()
samples = []
unstable_equal = 0
unstable_total = 0
open_last = 0
if exe is None:
    ck.violation("correspondence harness does not compile against /repo",
                 {"correspondence": "harness/C09/lt_harness.cpp", "log": log[-2000:]}, no_input=True)
elif drv is None:
    ck.violation("extracted model/driver does not build", {"correspondence": "ocaml/C09_driver.ml", "log": dlog[-2000:]}, no_input=True)
else:
    implfile = os.path.join(ck.scratch, "impl.txt")
    rc1, out1 = verif.sh([exe, casefile], timeout=3000)
    impl = out1.splitlines()
    if rc1 != 0:
        found = True
        bad_case = None
        for idx in range(max(0, len(impl) - 3), len(cases)):
            one = os.path.join(ck.scratch, "one.txt")
            open(one, "w").write(cases[idx] + "\n")
            r, o = verif.sh([exe, one], timeout=60)
            if r != 0:
                bad_case = (cases[idx], o)
                break
        ck.violation("a real loser tree class crashes (ASan/UBSan/assert) on a valid replace history",
                     {"case": bad_case[0] if bad_case else None, "log_tail": (bad_case[1] if bad_case else out1)[-2500:]})
    else:
        with open(implfile, "w") as f:
            f.write(out1)
        rc2, out2 = verif.sh([drv, casefile, implfile], timeout=3000)
        model = out2.splitlines()
        if rc2 != 0 or len(model) != len(cases):
            ck.violation("extracted model driver failed", {"correspondence": "ocaml/C09_driver.ml", "log": out2[-1500:]}, no_input=True)
        for idx, c in enumerate(cases):
            if idx >= len(model):
                break
            a = impl[idx].strip() if idx < len(impl) else "<missing>"
            b = model[idx].rstrip()
            v = c[:3]
            stats[v] += 1
            kk = len(case_seqs(c))
            fl = c.split(" ", 1)[0].split(":")
            if len(fl) == 6:
                if int(fl[5]) & 4 and fl[2] != "df":
                    fstats["temporary comparator/" + v[:2]] = fstats.get("temporary comparator/" + v[:2], 0) + 1
                    if fl[2].startswith("rk"): fstats["temporary ByRank comparator/" + v[:2]] = fstats.get("temporary ByRank comparator/" + v[:2], 0) + 1
                if int(fl[5]) & 8: fstats["reuse/" + v[:2]] = fstats.get("reuse/" + v[:2], 0) + 1
                if int(fl[5]) & 1: fstats["init() twice"] = fstats.get("init() twice", 0) + 1
                if int(fl[5]) & 2 and v[1] == "G": fstats["overrun: delete_min_insert(nullptr,true) after the last key"] = fstats.get("overrun: delete_min_insert(nullptr,true) after the last key", 0) + 1
                for tag in (fl[1], "cmp=" + fl[2], "via=" + fl[3], v[:2] + "/" + fl[1], v[:2] + "/cmp=" + fl[2],
                            "store=" + fl[4], v + "/store=" + fl[4]):
                    fstats[tag] = fstats.get(tag, 0) + 1
                if fl[3] == "s":
                    fstats["switch->" + ("copy" if v[0] == "C" else "pointer") + ("" if v[1] == "G" else " unguarded")] = \
                        fstats.get("switch->" + ("copy" if v[0] == "C" else "pointer") + ("" if v[1] == "G" else " unguarded"), 0) + 1
            mt = [x for x in c.split()[2:5] if x.startswith("m=")]
            if mt:
                nreg_c = len(c.split()[2][2:].split(",")) if c.split()[2].startswith("o=") else kk
                for mp in mt[0][2:].split(","):
                    mp = int(mp)
                    where = ("before the first insert_start" if mp == 0 else "between insert_start calls" if mp < nreg_c else
                             "after the last insert_start, before init()" if mp == nreg_c else "after init()" if mp == nreg_c + 1 else
                             "between delete_min_insert calls")
                    fstats["move " + where] = fstats.get("move " + where, 0) + 1
                fstats["moved/" + v[:2]] = fstats.get("moved/" + v[:2], 0) + 1
            otok = c.split()[2]
            if otok.startswith("o="):
                o = otok[2:].split(",")
                okind = "descending" if o == [str(x) for x in range(len(o) - 1, -1, -1)] else "shuffled"
                if len(set(o)) < len(o):
                    fstats["re-registration/" + v[:2]] = fstats.get("re-registration/" + v[:2], 0) + 1
                fstats["order=" + okind] = fstats.get("order=" + okind, 0) + 1
                fstats[v + "/order=" + okind] = fstats.get(v + "/order=" + okind, 0) + 1
                if o[0] != "0" and v[:2] == "CG":
                    fstats["CG/first-registered-is-not-player-0"] = fstats.get("CG/first-registered-is-not-player-0", 0) + 1
            else:
                fstats["order=ascending"] = fstats.get("order=ascending", 0) + 1
            if v[1] == "G":
                sq = case_seqs(c)
                if "-" in sq:
                    fstats["insert_start(nullptr,i,true)"] = fstats.get("insert_start(nullptr,i,true)", 0) + 1
                    if sq[0] == "-" and any(x != "-" for x in sq[1:]):
                        fstats["exhausted-left-with-live-right/" + v] = fstats.get("exhausted-left-with-live-right/" + v, 0) + 1
                    if all(x == "-" for x in sq):
                        fstats["all-exhausted/" + v] = fstats.get("all-exhausted/" + v, 0) + 1
                if any(x != "-" for x in sq):
                    fstats["delete_min_insert(nullptr,true)"] = fstats.get("delete_min_insert(nullptr,true)", 0) + 1
            if a.startswith("?"):
                ck.violation("harness rejected a generated case: " + a, {"correspondence": "checks/C09.py generator vs harness/C09/lt_harness.cpp",
                                                                          "first_disagreeing_case": c}, no_input=True)
                break
            kstats[kk] = kstats.get(kk, 0) + 1
            mtrace, _, verdict = b.partition(" ; chk=")
            if is_nontrivial(c):
                nontrivial.add(c)
            if verdict != "ok":
                found = True
                ck.violation("min_source() of %s is not a minimum-holding live player%s (or the run does not follow the caller protocol): impl=%s model=%s"
                             % (v, " with the smallest index" if v[2] == "S" else "", a[-100:], mtrace[-100:]),
                             {"case": c, "impl": a, "model": mtrace, "checker": verdict,
                              "replay_cmd": "bin/check C09 --replay <this file>"})
                if ck.violations >= 3:
                    break
                continue
            if v[2] == "S":
                if canon(v, a) != canon(v, mtrace):
                    ck.violation("stable class %s: implementation and proven model report different winners although the checker accepts both: impl=%s model=%s"
                                 % (v, a[-100:], mtrace[-100:]),
                                 {"correspondence": "coq/C09/LoserTree.v vs tlx/container/loser_tree.hpp", "first_disagreeing_case": c,
                                  "impl": a, "model": mtrace}, no_input=True)
                    if ck.violations >= 3:
                        break
                elif a != mtrace:
                    open_last += 1
            else:
                unstable_total += 1
                if a == mtrace:
                    unstable_equal += 1
        for i in (0, ncorpus, ncorpus + 2000, len(cases) - 1):
            if 0 <= i < len(impl) and i < len(model):
                samples.append({"case": cases[i], "impl": impl[i], "model_and_checker": model[i]})

probe_big_k()
probe_large_k()

if pr is not None and not pr["ok"]:
    ck.proof_broken(found)

ck.finish({
    "evaluations": len(cases),
    "distinct_nontrivial": len(nontrivial),
    "rule": "a case = class, sentinel, one key sequence per player; the harness feeds insert_start/init and then replaces the winner "
            "with its next key (or marks it exhausted) until no key is left, recording min_source() after init() and after every "
            "delete_min_insert(). Every recorded sequence is judged by the Coq-extracted checker (proved sound and complete for the property); "
            "stable classes are additionally compared with the extracted model report by report. non-trivial = at least two players and "
            "(two players share a key value, or a player starts exhausted, or the player count is not a power of two); distinct = distinct case text.",
    "samples": samples,
    "input_distribution": {"per_class": stats, "per_player_count": {str(k): n for k, n in sorted(kstats.items())},
                           "exhaustive_blocks": sorted(hist.keys()), "corpus": ncorpus},
    "exhaustive": False,
    "api_surface": api_surface(),
    "large_k": largek_report,
    "known_finding_players_above_2^30": {
        "key": KF_KEY,
        "text": "Source = uint32_t: the constructors compute the node array size 2 * k_ and k_ = round_up_to_power_of_two(k) in 32-bit "
                "arithmetic. 2^30 < k <= 2^31: 0 elements are allocated and the constructor writes out of bounds; 2^31 < k < 2^32: "
                "round_up_to_power_of_two wraps to 0, the tree is constructed without nodes and no player can be registered. One root cause, "
                "one key. Recorded, not repaired (the corrected allocation needs > 16 GiB). The theorems assume ik <= 2^30.",
        "witnesses": bigk_report},
    "flavour_histogram": {k: fstats[k] for k in sorted(fstats)},
    "unstable_cases_equal_to_model": "%d of %d" % (unstable_equal, unstable_total),
    "stable_cases_differing_only_in_the_open_last_report": open_last,
}, assumptions=[
    "Source = uint32_t arithmetic is modelled on unbounded N; the theorems assume ik <= 2^30 (2*k_ and k_+source do not wrap); "
    "beyond that bound the real constructors misbehave: known finding players-above-2^30, re-probed on every run",
    "round_up_to_power_of_two(ik) is modelled by its specification 2^ceil(log2 ik) (its word-level code is property C20)",
    "copy and pointer classes share the model: key copy + sup flag <-> key pointer / nullptr; slots the constructors leave "
    "indeterminate are modelled by the padding value (each is written before it is read)",
    "unguarded classes: documented precondition = no player runs out of keys and the sentinel is not less than any real key; "
    "class letter V = the same classes with keys above the sentinel, consulted only while some current key beats the sentinel "
    "(the regime of multiway_merge_loser_tree_combined; theorems C09_unguarded_any_keys_*)",
    "comparator is a strict weak order (Common.Order.SWO)",
    "extraction: ExtrOcamlBasic only; N/positive/list stay Coq inductives",
])
