#!/usr/bin/env python3
"""C15 — sorting networks. translator (recorded trace + textual parse) -> Coq sweep theorems -> exhaustive
0/1 correspondence on the real entry points."""
import os, re, sys
HERE = os.path.dirname(os.path.abspath(__file__))
sys.path.insert(0, os.path.join(HERE, "..", "lib")); sys.path.insert(0, os.path.join(HERE, "..", "translate"))
import verif, networks

ck = verif.Check("C15")
found_input = False
translator_error = None
try:
    ck.regen([networks.generate])
except RuntimeError as e:
    translator_error = str(e)

pr = ck.prove() if translator_error is None else None

# ---- correspondence / search on the real code (always run: it is also the search for a failing input)
tabs_path = os.path.join(ck.scratch, "tables.txt")
with open(tabs_path, "w") as f:
    for name, d in getattr(ck, "c15_tables", {}).items():
        for n, net in sorted(d.items()):
            f.write("%s %d%s\n" % (name, n, "".join(" %d:%d" % p for p in net)))
exe, log = ck.build_cpp("c15_exhaust", ["harness/C15/exhaust.cpp"], flags=verif.CXXFLAGS_FAST + ["-g", "-fsanitize=address,undefined", "-fno-sanitize-recover=all"])
stats = {}
samples = []
if exe is None:
    ck.violation("correspondence harness does not compile against /repo", {"correspondence": "harness/C15/exhaust.cpp", "log": log[-2000:]}, no_input=True)
else:
    rc, out = verif.sh([exe, tabs_path, ck.tier, str(ck.seed)], timeout=3000)
    for line in out.splitlines():
        if line.startswith("FAIL "):
            found_input = True
            ck.violation("real entry point leaves an unsorted / non-permuted result: " + line, {"case": line, "replay_cmd": "bin/check C15 (deterministic: exhaustive enumeration)"})
            if ck.violations >= 3: break
        elif line.startswith("MISMATCH "):
            ck.violation("entry point result differs from the recorded network applied to the same input (translator/correspondence): " + line,
                         {"correspondence": "recorded comparator list vs real result", "case": line}, no_input=True)
            if ck.violations >= 3: break
        elif line.startswith("STATS"):
            stats = dict(kv.split("=") for kv in line.split()[1:])
    if rc != 0 and not stats:
        found_input = True
        ck.violation("harness crashed (sanitizer or abort) rc=%d" % rc, {"log_tail": out[-3000:]})

if translator_error is not None and not found_input:
    ck.violation("translator could not re-derive the model from /repo: " + translator_error[:300],
                 {"theorem_or_correspondence": "translate/networks.py", "detail": translator_error[-2000:]}, no_input=True)
if pr is not None and not pr["ok"]:
    ck.proof_broken(found_input)

tabs = getattr(ck, "c15_tables", {})
for nm in ("best.direct", "bn.direct", "bnp.dispatch.false"):
    if nm in tabs and 5 in tabs[nm]:
        samples.append({"network": nm, "n": 5, "comparators": tabs[nm][5]})
samples.append({"api_surface": "iterator kinds: T*, std::reverse_iterator<T*>, std::deque<T>::iterator across a block boundary, std::vector<T>::iterator (dispatch + direct, guard cells around the range); comparators: std::less, std::greater, key-only order on (key,id), default arguments, move-sensitive rank table, two objects of one comparator type (function pointers asc/desc, rank tables asc/desc) through the same entry point in turn; CS_IfSwap objects built from a temporary / a by-value argument and used after that comparator died (member + heap)"})
samples.append({"input_family": "all 2^n zero-one vectors, n=0..16, through 3 families x {direct, dispatch} x {less, greater, key-only order on (key,id)}"})
ck.finish({
    "evaluations": int(stats.get("evaluations", 0)),
    "distinct_nontrivial": int(stats.get("nontrivial", 0)),
    "rule": "C++ side: every 0/1 input of every length 0..16 and every 3-key input up to length %s through all six entry-point kinds, plus random inputs; non-trivial = at least one element moved; distinct counted only over the enumerated (duplicate-free) phases. Coq side: 6 generated tables swept over all 2^n inputs by vm_compute." % ("11" if ck.thorough() else "8"),
    "exhaustive": True,
    "samples": samples,
    "networks_translated": sum(len(d) for d in tabs.values()),
}, assumptions=[
    "translator: recording run of the templates over an operation-free element type + textual parse of best.hpp (both must agree)",
    "CS_IfSwap modelled as: if ltb right left then swap; comparator must be a strict weak order",
    "C++ harness compiled with g++ -O2 ASan+UBSan from /repo working tree",
])
