#!/usr/bin/env python3
"""C13 — DAryHeap / DAryAddressableIntHeap / RadixHeap: Coq invariants over all histories + op-sequence
correspondence (extracted models vs. the real classes under ASan/UBSan, plus a reference multiset kept by the
harness that decides the property on the implementation's own answers)."""
import json, os, sys
from concurrent.futures import ThreadPoolExecutor
HERE = os.path.dirname(os.path.abspath(__file__))
sys.path.insert(0, os.path.join(HERE, "..", "lib"))
import verif

ck = verif.Check("C13")
rng = ck.rng
pr = ck.prove()

def pick(rng, w):
    tot = sum(x for _, x in w); p = rng.below(tot)
    for n, x in w:
        if p < x: return n
        p -= x
    return w[-1][0]

# ---------------------------------------------------------------- generators
# build_heap through: const vector&, vector&&, vector iterators, raw pointers, deque, list, forward_list, single-pass input range
BUILD_KINDS = ["B", "Bm", "Bi", "Bp", "Bq", "Bl", "Bf", "Bs", "Bs"]
def gen_dary(rng, nops):
    d = 1 + rng.below(8); rv = rng.below(2)
    r = rng.below(100)
    if r < 8: rv = 2; d = 2                 # default template arguments: Arity 2, std::less (priority = key), alias d_ary_heap
    elif r < 22: rv = 3 + rng.below(4); d = 2 + rng.below(2)   # heap-owning keys; min/max order x moved-from ranks +inf/-inf
    nk = rng.choice([3, 6, 12, 40]); pmax = rng.choice([2, 5, 12, 40])
    mode = rng.below(4)      # 0 mixed, 1 fill then drain, 2 build/update_all heavy, 3 push/pop alternating near empty
    ops = []; size = 0; dirty = False
    def kp():
        k = rng.below(nk)
        return (k, k) if rv == 2 else (k, rng.below(pmax))
    while len(ops) < nops:
        if rv == 2:          # the order is the key itself: there is no priority to change
            name = pick(rng, [("P", 50), ("O", 38), ("B", 8), ("C", 2), ("UA", 2)])
        elif dirty:
            name = pick(rng, [("S", 40), ("UA", 45), ("B", 8), ("C", 7)])
        elif mode == 1:
            name = pick(rng, [("P", 70 if len(ops) < nops // 2 else 10), ("O", 10 if len(ops) < nops // 2 else 70), ("S", 3), ("B", 2)])
        elif mode == 2:
            name = pick(rng, [("P", 25), ("O", 25), ("S", 20), ("B", 20), ("C", 4), ("UA", 6)])
        elif mode == 3:
            name = pick(rng, [("P", 50), ("O", 48), ("C", 2)])
        else:
            name = pick(rng, [("P", 45), ("O", 35), ("S", 8), ("B", 5), ("C", 3), ("UA", 4)])
        if rng.chance(1, 25): ops.append(rng.choice(["Y", "Z", "V,%d" % rng.below(40)])); continue   # copies/moves/reserve
        if name == "P" and size and not dirty and rng.chance(1, 6):
            ops.append(rng.choice(["PT", "PTR"])); size += 1      # push(top()): the argument aliases the heap's storage
        elif name == "P": k, p = kp(); ops.append("%s,%d,%d" % (rng.choice(["P", "PR"]), k, p)); size += 1   # const& / && overload
        elif name == "O":
            if size or rng.chance(1, 10): ops.append(rng.choice(["O", "OX"])); size = max(0, size - 1)   # pop / extract_top
        elif name == "S": k, p = kp(); ops.append("S,%d,%d" % (k, p)); dirty = True
        elif name == "UA": ops.append("UA"); dirty = False
        elif name == "B":
            n = rng.choice([0, 1, 2, 3, d, d + 1, d + 2, 2 * d + 1, rng.below(30)])
            l = [kp() for _ in range(n)]
            ops.append(rng.choice(BUILD_KINDS) + "," + ";".join("%d:%d" % x for x in l)); size = n; dirty = False   # 3 overloads
        elif name == "C": ops.append("C"); size = 0; dirty = False
    if dirty: ops.append("UA")
    ops.append("D")
    return "dary %d %d %s" % (d, rv, " ".join(ops))

def gen_addr(rng, nops):
    """The generator tracks an approximation of the key set (which of several tied keys a pop removes is left open by
    the property); harness and driver apply P / R / O only when the precondition holds on their own exact state."""
    d = 1 + rng.below(8); rv = rng.below(2)
    kt = rng.choice([8, 16, 32, 32])
    r = rng.below(100)
    if r < 8: rv = 2; d = 2; kt = 32        # default template arguments (std::less: priority = key), alias d_ary_addressable_int_heap
    elif r < 16: kt = 64; d = rng.choice([2, 4])
    nk = rng.choice([4, 8, 16, 40]); pmax = rng.choice([2, 5, 12, 40])
    hi = None
    if kt == 8 and rng.chance(1, 4): nk = 255; hi = 254          # largest legal uint8_t key
    mode = rng.below(4)      # 0 mixed, 1 update heavy (both directions), 2 rebuild heavy, 3 remove heavy
    ops = []; cont = set(); prio = {}; dirty = False
    kr = max(1, min(nk, 40) - 3)        # the contains() bitmap (nk keys) also covers keys beyond the handle table
    def pr(k): return k if rv == 2 else rng.below(pmax)
    def key():
        if hi is not None and rng.chance(1, 3): return hi - rng.below(3)
        return rng.below(kr)
    while len(ops) < nops:
        if rng.chance(1, 25): ops.append(rng.choice(["Y", "Z", "V,%d" % rng.below(nk + 4)])); continue
        if dirty:
            name = pick(rng, [("S", 40), ("UA", 45), ("B", 8), ("C", 7)])
        elif mode == 1:
            name = pick(rng, [("P", 25), ("U", 50), ("O", 10), ("R", 10), ("S", 3), ("B", 2)])
        elif mode == 2:
            name = pick(rng, [("P", 25), ("B", 25), ("U", 10), ("O", 15), ("R", 10), ("S", 8), ("C", 5), ("UA", 2)])
        elif mode == 3:
            name = pick(rng, [("P", 40), ("R", 35), ("O", 10), ("U", 10), ("B", 3), ("C", 2)])
        else:
            name = pick(rng, [("P", 35), ("O", 15), ("R", 15), ("U", 20), ("S", 5), ("B", 5), ("C", 2), ("UA", 3)])
        if name == "P":
            k = key()
            if k not in cont or rng.chance(1, 10):
                p = pr(k); ops.append("%s,%d,%d" % (rng.choice(["P", "PR"]), k, p)); cont.add(k); prio[k] = p
                if rng.chance(1, 3) and k >= 2:
                    # right after a push that may have grown handles_: update()/remove() of a smaller key (often a
                    # never-inserted key in the gap): update inserts it, remove is skipped by the harness if absent
                    g = rng.below(k); p2 = pr(g)
                    if rng.chance(2, 3): ops.append("U,%d,%d" % (g, p2)); cont.add(g); prio[g] = p2
                    else: ops.append("R,%d" % g); cont.discard(g)
        elif name == "R":
            if cont: k = rng.choice(sorted(cont)) if rng.chance(9, 10) else key(); ops.append("R,%d" % k); cont.discard(k)
        elif name == "O":
            ops.append(rng.choice(["O", "OX"]))
            if cont:
                best = (max if rv == 1 else min)(prio.get(k, 0) for k in cont)
                cont.discard([k for k in sorted(cont) if prio.get(k, 0) == best][0])
        elif name == "U": k = key(); p = pr(k); ops.append("U,%d,%d" % (k, p)); cont.add(k); prio[k] = p
        elif name == "S":
            if rv == 2: continue            # std::less on the key: no priority to change
            k = key(); p = rng.below(pmax); ops.append("S,%d,%d" % (k, p)); prio[k] = p; dirty = True
        elif name == "UA": ops.append("UA"); dirty = False
        elif name == "B":
            n = rng.choice([0, 1, 2, 3, d + 1, d + 2, 2 * d + 1, rng.below(20)])
            ks = []
            for _ in range(n):
                k = key()
                if k not in ks: ks.append(k)
            l = []
            for k in ks: prio[k] = pr(k); l.append("%d:%d" % (k, prio[k]))
            ops.append(rng.choice(BUILD_KINDS) + "," + ";".join(l)); cont = set(ks); dirty = False
        elif name == "C": ops.append("C"); cont = set(); dirty = False
    if dirty: ops.append("UA")
    ops.append("D")
    return "addr %d %d %d %d %s" % (d, rv, kt, nk, " ".join(ops))

def gen_radix(rng, nops):
    w = rng.choice([8, 16, 32, 64]); sg = rng.below(2); rb = rng.choice([1, 2, 3, 4, 5, 6])
    lo = -(1 << (w - 1)) if sg else 0
    hi = (1 << (w - 1)) - 1 if sg else (1 << w) - 1
    mode = rng.below(5)   # 0 mixed, 1 dense near frontier, 2 extremes, 3 wide random, 4 bulk (swap_top_bucket) with duplicates
    ops = []; cont = []; frontier = lo
    def key():
        r = rng.below(100)
        if mode == 2 and r < 50: return rng.choice([lo, lo + 1, hi, hi - 1, frontier, min(hi, frontier + 1), 0 if lo <= 0 else lo, -1 if sg else hi >> 1])
        if mode == 1 or r < 30: return min(hi, frontier + rng.below(rng.choice([2, 4, 9, 70])))
        if mode == 4 and cont and r < 70: return rng.choice(cont)
        if r < 45: return min(hi, frontier + (1 << rng.below(w)) - rng.below(2))
        if r < 55: return rng.choice([hi, hi - 1, frontier])
        return frontier + rng.below(hi - frontier + 1)
    while len(ops) < nops:
        if rng.chance(1, 30): ops.append(rng.choice(["Y", "Z"])); continue          # copy / move round trips
        name = pick(rng, [("P", 45), ("T", 14), ("O", 22), ("W", 6 if mode != 4 else 20), ("K", 10), ("C", 2)])
        if name == "P": name = rng.choice(["P", "E", "F", "H", "G", "V", "U"])   # push / emplace / emplace_keyfirst / *_bucket variants
        if name in ("P", "E", "F", "H", "G", "V", "U"):
            k = key()
            if k < frontier or k > hi: continue
            ops.append("%s,%x,%d" % (name, k & ((1 << w) - 1), rng.below(50))); cont.append(k)
        elif name == "C": ops.append("C"); cont = []; frontier = lo
        elif not cont: continue
        elif name == "K" and rng.chance(1, 3):
            ops.append(rng.choice(["A", "M", "N"])); frontier = min(cont); cont.append(frontier)   # push/emplace/push_to_bucket of top()
        elif name == "K": ops.append("K")
        elif name == "T": ops.append("T"); frontier = min(cont)
        elif name == "O": ops.append("O"); frontier = min(cont); cont.remove(frontier)
        elif name == "W": ops.append("W"); frontier = min(cont); cont = [x for x in cont if x != frontier]
    while cont:
        ops.append("T"); ops.append("O"); cont.remove(min(cont))
    if (w, sg, rb) in ((32, 0, 3), (16, 1, 2)) and rng.chance(1, 2):
        ops.insert(0, "X")      # RadixHeap over a non-pair value type with its own KeyExtract, built by make_radix_heap
    return "radix %d %d %d %s" % (w, sg, rb, " ".join(ops))

corpus = [l.strip() for l in open(os.path.join(verif.VERIF, "corpus", "C13", "cases.txt")) if l.strip() and not l.startswith("#")]
ncorpus = len(corpus)
cases = list(corpus)
if ck.replay:
    cases = [json.load(open(ck.replay))["case"]]
else:
    N = 150000 if ck.thorough() else 3600
    for k in range(20 if ck.thorough() else 3): cases.append("bitarray %d" % rng.below(1 << 30))   # the real filled_ tree vs std::set
    for k in range(N):
        r = k % 3
        if r == 0: cases.append(gen_dary(rng, 8 + rng.below(60)))
        elif r == 1: cases.append(gen_addr(rng, 8 + rng.below(60)))
        else: cases.append(gen_radix(rng, 8 + rng.below(70)))
def part_of(c):
    t = c.split()
    if t[0] == "dary": return "heap1"
    if t[0] == "addr": return "heap1" if (t[3] == "8" and t[2] != "2") else "heap2"
    if t[0] == "bitarray": return "radix1"
    return "radix1" if t[1] in ("8", "16") else "radix2"
groups = {"heap1": [], "heap2": [], "radix1": [], "radix2": []}
for c in cases: groups[part_of(c)].append(c)
files = {}
for g, l in groups.items():
    files[g] = os.path.join(ck.scratch, g + "_cases.txt"); open(files[g], "w").write("\n".join(l) + "\n")

# ---------------------------------------------------------------- build (four translation units in parallel) and run
FLAGS = [f if f != "-g" else "-g1" for f in verif.CXXFLAGS_SAN]
SRC = {"heap1": ("harness/C13/heap_harness.cpp", "-DC13_PART=1", []), "heap2": ("harness/C13/heap_harness.cpp", "-DC13_PART=2", []),
       "radix1": ("harness/C13/radix_harness.cpp", "-DC13_PART=1", ["tlx/die/core.cpp"]),
       "radix2": ("harness/C13/radix_harness.cpp", "-DC13_PART=2", ["tlx/die/core.cpp"])}
with ThreadPoolExecutor(max_workers=4) as ex:
    futs = {g: ex.submit(ck.build_cpp, "c13_" + g, [SRC[g][0]], FLAGS, SRC[g][2], [SRC[g][1]]) for g in SRC}
    built = {g: f.result() for g, f in futs.items()}
drv, dlog = ck.ocaml_driver("C13")

stats = {"dary": 0, "addr": 0, "radix": 0, "bitarray": 0}
distinct = set(); samples = []; found = False

def nontrivial(case, impl_line):
    t = case.split()
    if t[0] == "bitarray": return True
    if t[0] == "radix":
        radix = 1 << int(t[3]); big = False
        for tok in impl_line.split():
            if tok[0] == "i" and int(tok[1:].split(":")[0]) >= radix: big = True
            elif big and tok[0] in "tow": return True
        return False
    # heaps: an extraction / removal / update / rebuild while at least 3 elements are stored
    outs = impl_line.split()
    skip = 3 if t[0] == "dary" else 5
    for i, op in enumerate(t[skip:]):
        if op[0] in "ORUB" and i > 0 and i - 1 < len(outs) and outs[i - 1].split(":")[0].isdigit() and int(outs[i - 1].split(":")[0]) >= 3:
            return True
    return False

def run_group(name, exe, log, cfile, group):
    global found, samples
    if not group: return
    if exe is None:
        ck.violation("correspondence harness %s does not compile against /repo" % name,
                     {"correspondence": "harness/C13/%s" % name, "log": log[-2000:]}, no_input=True); return
    rc1, out1 = verif.sh([exe, cfile], timeout=3000)
    rc2, out2 = verif.sh([drv, cfile], timeout=3000)
    impl = out1.splitlines(); model = out2.splitlines()
    upto = len(group)
    if rc1 != 0:
        # crash / abort / sanitizer report: lines are flushed per case, so the culprit is the first unanswered one
        found = True
        idx = len([l for l in impl if l and not l.startswith("=") and "runtime error" not in l and "Assertion" not in l])
        bad = None
        for j in range(max(0, idx - 2), min(len(group), idx + 2)):
            one = os.path.join(ck.scratch, "one.txt"); open(one, "w").write(group[j] + "\n")
            r, o = verif.sh([exe, one], timeout=120)
            if r != 0: bad = (group[j], o); break
        ck.violation("real heap crashes (assert/ASan/UBSan) on a precondition-respecting history",
                     {"case": bad[0] if bad else None, "log_tail": (bad[1] if bad else out1)[-2500:]})
        upto = max(0, idx - 1)     # the cases answered before the crash are still compared below
    if rc2 != 0 or len(model) < len(group):
        ck.violation("extracted model driver failed", {"correspondence": "ocaml/C13_driver.ml", "log": out2[-1500:]}, no_input=True); return
    for idx, c in enumerate(group[:upto]):
        a = impl[idx].strip() if idx < len(impl) else "<missing>"
        b = model[idx].strip()
        stats[c.split()[0]] += 1
        if "INVALID-HISTORY" in a:
            ck.violation("generator self-check failed (history violates a documented precondition)", {"case": c, "impl": a}, no_input=True); break
        if "PROPFAIL" in a:
            found = True
            ck.violation("implementation violates the property against the reference multiset: %s" % a[a.index("PROPFAIL"):],
                         {"case": c, "impl": a, "model": b})
        elif a != b:
            ck.violation("implementation differs from the proven model (correspondence %s): impl=%s model=%s" % (name, a[-100:], b[-100:]),
                         {"case": c, "impl": a, "model": b, "correspondence": name}, no_input=True)
        elif nontrivial(c, a): distinct.add(c)
        if ck.violations >= 3: break
    for i in (0, len(group) // 2, len(group) - 1):
        if i < len(impl) and len(samples) < 6: samples.append({"case": group[i][:300], "result": impl[i][:300]})

if drv is None:
    ck.violation("extracted model/driver does not build", {"correspondence": "ocaml/C13_driver.ml", "log": dlog[-2000:]}, no_input=True)
else:
    for g in ("heap1", "heap2", "radix1", "radix2"):
        run_group(SRC[g][0].split("/")[-1] + " " + SRC[g][1], built[g][0], built[g][1], files[g], groups[g])

if pr is not None and not pr["ok"]:
    ck.proof_broken(found)

ck.finish({
    "evaluations": len(cases),
    "distinct_nontrivial": len(distinct),
    "rule": "histories from spec-tracking generators. dary: arity 1..8, min/max order over an external priority table, "
            "push/pop/extract_top/priority change+update_all/build_heap (3 overloads)/clear, final drain. addr: same plus "
            "remove/update/contains over uint8/16/32 keys incl. key 254 for uint8. radix: {u,i}{8,16,32,64} x radix {2,4,8,16,32,64}, "
            "monotone push/emplace/top/pop/swap_top_bucket/peak_top_key/clear with extremes, final drain. "
            "non-trivial = (heaps) an extraction/removal/update/rebuild executed with >= 3 stored elements; (radix) an element "
            "was placed in a bucket >= Radix and later extracted (forces reorganize_ to redistribute); distinct = distinct case text. "
            "Every case runs on the real class (ASan+UBSan, asserts on) and on the extracted Coq model; each op's answers "
            "(size, top, sanity_check, contains bitmap / bucket index, values, keys) are compared and independently checked "
            "against a reference multiset in the harness.",
    "samples": samples,
    "input_distribution": dict(stats, corpus=ncorpus),
}, assumptions=[
    "comparators are strict weak orders (here: order of an external priority table, optionally reversed)",
    "DAryAddressableIntHeap: keys distinct, != not_present(); priorities change only through update()/update_all()/build_heap()",
    "RadixHeap: no pushed key is smaller than the most recently extracted minimum (top/pop/swap_top_bucket) since the last clear()",
    "uint16_t/uint32_t keys of the addressable heap are run against the model instantiated with not_present = 300 (unary numerals; all generated keys and sizes are < 255; the theorems hold for every not_present); uint8_t uses the exact 255",
    "filled_ (BitArray tree) is modelled by its specification (set of indices, find_lsb = least member); std::vector by lists",
    "extraction: ExtrOcamlBasic only; nat/N/list stay Coq inductives",
])
