"""C19 translator: regenerate coq/gen/Tables_C19_gen.v from /repo's tlx/string/base64.cpp and hexdump.cpp.

Parsed out of the sources on every run (regex / brace-level; no compilation):
  * base64.cpp : `encoding64[64]` (char literals), `decoding64[256]` (numbers and the two symbolic
                 constants `ex`, `ws`, whose values are read from their `static constexpr` definitions)
  * hexdump.cpp: the `xdigits[16]` table of hexdump() and of hexdump_lc(), and the two `switch`
                 statements of parse_hexdump() as association lists  character -> value OR-ed into c.
The theorems of coq/C19 are re-checked against the regenerated text.
"""
import os
import re
import sys

sys.path.insert(0, os.path.join(os.path.dirname(os.path.abspath(__file__)), "..", "lib"))
import verif  # noqa: E402


def _strip_comments(s):
    s = re.sub(r"/\*.*?\*/", " ", s, flags=re.S)
    return re.sub(r"//[^\n]*", " ", s)


_ESC = {"n": 10, "t": 9, "r": 13, "0": 0, "\\": 92, "'": 39, '"': 34}


def _char_lit(tok):
    tok = tok.strip()
    m = re.fullmatch(r"'(\\?.)'", tok, flags=re.S)
    if not m:
        raise RuntimeError("not a character literal: %r" % tok)
    c = m.group(1)
    if c.startswith("\\"):
        if c[1] not in _ESC:
            raise RuntimeError("unknown escape in %r" % tok)
        return _ESC[c[1]]
    return ord(c)


def _function_body(src, header_regex, what):
    """text of the brace block following the first match of header_regex"""
    m = re.search(header_regex, src)
    if not m:
        raise RuntimeError("cannot find %s" % what)
    i = src.index("{", m.end() - 1) if src[m.end() - 1] != "{" else m.end() - 1
    depth = 0
    for j in range(i, len(src)):
        if src[j] == "{":
            depth += 1
        elif src[j] == "}":
            depth -= 1
            if depth == 0:
                return src[i:j + 1]
    raise RuntimeError("unbalanced braces in %s" % what)


def _array(body, name, n, what):
    m = re.search(r"\b%s\s*\[\s*%d\s*\]\s*=\s*\{(.*?)\}" % (re.escape(name), n), body, flags=re.S)
    if not m:
        raise RuntimeError("cannot find array %s[%d] in %s" % (name, n, what))
    # split at commas that are not inside a character literal
    toks = re.findall(r"'(?:\\.|[^'\\])'|[^,\s][^,]*", m.group(1))
    toks = [t.strip() for t in toks if t.strip()]
    if len(toks) != n:
        raise RuntimeError("%s in %s has %d entries, expected %d" % (name, what, len(toks), n))
    return toks


def _switch_table(text, what):
    """`case 'x': [case 'y':] c |= 0xNN; break;` ... `default: throw` -> [(char, value)]"""
    m = re.search(r"switch\s*\(\s*\*si\s*\)", text)
    if not m:
        raise RuntimeError("no switch(*si) in %s" % what)
    blk = _function_body(text[m.start():], r"switch\s*\(\s*\*si\s*\)\s*\{", what)
    out = []
    pending = []
    pos = 0
    tok_re = re.compile(r"case\s+('(?:\\.|[^'\\])')\s*:|c\s*\|=\s*(0[xX][0-9a-fA-F]+|\d+)\s*;|break\s*;|default\s*:|throw\b[^;]*;")
    state_has_val = False
    for t in tok_re.finditer(blk):
        s = t.group(0)
        if s.startswith("case"):
            if state_has_val:
                raise RuntimeError("fall-through after assignment in %s" % what)
            pending.append(_char_lit(t.group(1)))
        elif s.startswith("c"):
            if not pending or state_has_val:
                raise RuntimeError("assignment without case label in %s" % what)
            v = int(t.group(2), 0)
            for ch in pending:
                out.append((ch, v))
            state_has_val = True
        elif s.startswith("break"):
            if not state_has_val:
                raise RuntimeError("break without assignment in %s" % what)
            pending = []
            state_has_val = False
        elif s.startswith("default"):
            if pending or state_has_val:
                raise RuntimeError("case labels fall into default in %s" % what)
        pos = t.end()
    # everything in the block must be made of the recognised tokens
    rest = tok_re.sub(" ", blk)
    rest = re.sub(r"[{}\s]", "", rest)
    if rest:
        raise RuntimeError("unrecognised code in switch of %s: %r" % (what, rest[:80]))
    if "default" not in blk or "throw" not in blk:
        raise RuntimeError("switch of %s has no throwing default" % what)
    chars = [c for c, _ in out]
    if len(set(chars)) != len(chars):
        raise RuntimeError("duplicate case label in %s" % what)
    return out, m.start() + len(blk)


def parse(repo):
    b64 = _strip_comments(open(os.path.join(repo, "tlx/string/base64.cpp")).read())
    hexs = _strip_comments(open(os.path.join(repo, "tlx/string/hexdump.cpp")).read())
    enc_body = _function_body(b64, r"std::string\s+base64_encode\s*\(\s*const\s+void\s*\*[^)]*\)\s*\{", "base64_encode")
    dec_body = _function_body(b64, r"std::string\s+base64_decode\s*\(\s*const\s+void\s*\*[^)]*\)\s*\{", "base64_decode")
    enc = [_char_lit(t) for t in _array(enc_body, "encoding64", 64, "base64_encode")]
    consts = {}
    for nm in ("ex", "ws"):
        m = re.search(r"static\s+constexpr\s+std::uint8_t\s+%s\s*=\s*(\d+)\s*;" % nm, dec_body)
        if not m:
            raise RuntimeError("cannot find constant %s in base64_decode" % nm)
        consts[nm] = int(m.group(1))
    dec = []
    for t in _array(dec_body, "decoding64", 256, "base64_decode"):
        if t in consts:
            dec.append(consts[t])
        elif re.fullmatch(r"\d+", t):
            dec.append(int(t))
        else:
            raise RuntimeError("unexpected entry %r in decoding64" % t)
    if any(v > 255 for v in dec):
        raise RuntimeError("decoding64 entry out of uint8 range")
    uc_body = _function_body(hexs, r"std::string\s+hexdump\s*\(\s*const\s+void\s*\*[^)]*\)\s*\{", "hexdump")
    lc_body = _function_body(hexs, r"std::string\s+hexdump_lc\s*\(\s*const\s+void\s*\*[^)]*\)\s*\{", "hexdump_lc")
    xuc = [_char_lit(t) for t in _array(uc_body, "xdigits", 16, "hexdump")]
    xlc = [_char_lit(t) for t in _array(lc_body, "xdigits", 16, "hexdump_lc")]
    ph = _function_body(hexs, r"std::string\s+parse_hexdump\s*\(\s*tlx::string_view\s+\w+\s*\)\s*\{", "parse_hexdump")
    hi, end1 = _switch_table(ph, "parse_hexdump (first digit)")
    lo, _ = _switch_table(ph[end1:], "parse_hexdump (second digit)")
    if len(re.findall(r"switch\s*\(", ph)) != 2:
        raise RuntimeError("parse_hexdump no longer has exactly two switch statements")
    return {"enc64": enc, "dec64": dec, "ex": consts["ex"], "ws": consts["ws"],
            "xdigits_uc": xuc, "xdigits_lc": xlc, "hex_hi": hi, "hex_lo": lo}


def _nlist(xs, per=16):
    rows = []
    for i in range(0, len(xs), per):
        rows.append("; ".join(str(x) for x in xs[i:i + per]))
    return "[" + ";\n   ".join(rows) + "]"


def generate(ck):
    t = parse(verif.REPO)
    ck.c19_tables = t
    lines = ["(* GENERATED by translate/tables_c19.py from tlx/string/base64.cpp and tlx/string/hexdump.cpp - do not edit *)",
             "From Coq Require Import NArith List.", "Import ListNotations.", "Open Scope N_scope.", "",
             "(* base64_encode: static const char encoding64[64] *)",
             "Definition enc64 : list N :=\n  %s." % _nlist(t["enc64"]), "",
             "(* base64_decode: static const std::uint8_t decoding64[256]; ex / ws *)",
             "Definition dec_ex : N := %d." % t["ex"], "Definition dec_ws : N := %d." % t["ws"],
             "Definition dec64 : list N :=\n  %s." % _nlist(t["dec64"]), "",
             "(* hexdump(): xdigits[16];  hexdump_lc(): xdigits[16] *)",
             "Definition xdigits_uc : list N :=\n  %s." % _nlist(t["xdigits_uc"]),
             "Definition xdigits_lc : list N :=\n  %s." % _nlist(t["xdigits_lc"]), "",
             "(* parse_hexdump(): the two switch statements, as (character, value OR-ed into c) *)",
             "Definition hexparse_hi : list (N * N) :=\n  [%s]." % "; ".join("(%d, %d)" % p for p in t["hex_hi"]),
             "Definition hexparse_lo : list (N * N) :=\n  [%s]." % "; ".join("(%d, %d)" % p for p in t["hex_lo"]), ""]
    return {"Tables_C19_gen.v": "\n".join(lines)}


GENERATE = [generate]

if __name__ == "__main__":
    class _Ck:
        pass
    print(generate(_Ck())["Tables_C19_gen.v"])
