"""C14 translator: regenerate coq/gen/Tables_C14_gen.v from /repo's digest and SipHash sources.

Parsed on every run (plain regex over the comment-stripped text; every expected item must be found exactly,
otherwise RuntimeError = broken correspondence):
  md5.cpp     Worder / Rorder / Korder tables, the four initial state words, block geometry of finalize
  sha1.cpp    initial state, the four round constants (in order of appearance in sha1_compress), geometry
  sha256.cpp  K[64], initial state, rotation/shift amounts of Sigma0/Sigma1/Gamma0/Gamma1, geometry
  sha512.cpp  K[80], initial state, rotation/shift amounts, geometry
  *.hpp       sizeof(buf_), kDigestLength
  string/hexdump.cpp   the two xdigits tables (upper: hexdump, lower: hexdump_lc)
  siphash.hpp initial constants and rotation amounts of siphash_plain, siphash_init / siphash_final, the
              _MM_SHUFFLE immediates and shift pairs of the SSE2 TLX_SIPCOMPRESS
"""
import os
import re
import sys

sys.path.insert(0, os.path.join(os.path.dirname(os.path.abspath(__file__)), "..", "lib"))
import verif  # noqa: E402


def _strip(text):
    text = re.sub(r"/\*.*?\*/", " ", text, flags=re.S)
    return re.sub(r"//[^\n]*", " ", text)


def _read(rel):
    p = os.path.join(verif.REPO, rel)
    try:
        return _strip(open(p).read())
    except OSError as e:
        raise RuntimeError("cannot read %s: %s" % (rel, e))


def _num(tok):
    t = tok.strip()
    t = re.sub(r"(?i)(ull|ul|u|l)$", "", t)
    return int(t, 0)


def _array(text, name, n, rel):
    m = re.search(r"\b%s\s*\[\s*(\d+)\s*\]\s*=\s*\{([^{}]*)\}" % re.escape(name), text)
    if not m:
        raise RuntimeError("%s: table %s not found" % (rel, name))
    vals = [_num(x) for x in m.group(2).split(",") if x.strip()]
    if int(m.group(1)) != n or len(vals) != n:
        raise RuntimeError("%s: table %s has %d entries (declared %s), expected %d" % (rel, name, len(vals), m.group(1), n))
    return vals


def _iv(text, n, rel):
    vals = {}
    # constructor body: state_[i] = 0x...;
    for m in re.finditer(r"state_\[(\d+)\]\s*=\s*(0[xX][0-9a-fA-F]+(?:[uUlL]*))\s*;", text):
        i = int(m.group(1))
        if i in vals:
            raise RuntimeError("%s: state_[%d] initialised twice" % (rel, i))
        vals[i] = _num(m.group(2))
    if sorted(vals) != list(range(n)):
        raise RuntimeError("%s: expected %d initial state words, found indices %s" % (rel, n, sorted(vals)))
    return [vals[i] for i in range(n)]


def _body(text, header_re, rel):
    """text of the brace block following the first match of header_re"""
    m = re.search(header_re, text)
    if not m:
        raise RuntimeError("%s: %s not found" % (rel, header_re))
    i = text.index("{", m.end() - 1) if text[m.end() - 1] != "{" else m.end() - 1
    depth = 0
    for j in range(i, len(text)):
        if text[j] == "{":
            depth += 1
        elif text[j] == "}":
            depth -= 1
            if depth == 0:
                return text[i:j + 1]
    raise RuntimeError("%s: unbalanced braces after %s" % (rel, header_re))


def _geometry(cpp, hpp, cls, relc, relh):
    """(B, P, L, digest_len): sizeof(buf_), the `curlen_ > P` test, the offset of the stored length."""
    m = re.search(r"std::uint8_t\s+buf_\[(\d+)\]", hpp)
    if not m:
        raise RuntimeError("%s: buf_ size not found" % relh)
    B = int(m.group(1))
    m = re.search(r"kDigestLength\s*=\s*(\d+)", hpp)
    if not m:
        raise RuntimeError("%s: kDigestLength not found" % relh)
    D = int(m.group(1))
    fin = _body(cpp, r"void\s+%s::finalize\s*\([^)]*\)\s*\{" % cls, relc)
    mP = re.findall(r"if\s*\(\s*curlen_\s*>\s*(\d+)\s*\)", fin)
    mW = re.findall(r"while\s*\(\s*curlen_\s*<\s*(\d+)\s*\)", fin)
    mS = re.findall(r"store\w*\s*\(\s*length_\s*,\s*buf_\s*\+\s*(\d+)\s*\)", fin)
    if len(mP) != 1 or len(mW) != 2 or len(mS) != 1:
        raise RuntimeError("%s: finalize() of %s does not have the expected shape (if:%s while:%s store:%s)" % (relc, cls, mP, mW, mS))
    if int(mW[0]) != B:
        raise RuntimeError("%s: first fill loop of finalize() stops at %s, sizeof(buf_) is %d" % (relc, mW[0], B))
    if int(mW[1]) != int(mS[0]):
        raise RuntimeError("%s: zero fill stops at %s but length is stored at %s" % (relc, mW[1], mS[0]))
    if not re.search(r"buf_\[curlen_\+\+\]\s*=\s*static_cast<std::uint8_t>\(0x80\)", fin):
        raise RuntimeError("%s: the 0x80 padding byte store was not found in finalize()" % relc)
    return B, int(mP[0]), int(mS[0]), D


def _rots(text, fn, kinds, rel):
    """amounts of `return ror(x, a) ^ ror(x, b) ^ {ror|Sh}(x, c);` in function fn; kinds e.g. 'rrr' / 'rrs'"""
    body = _body(text, r"\b%s\s*\([^)]*\)\s*\{" % fn, rel)
    m = re.search(r"return\s+(ror\d+|Sh)\(x,\s*(\d+)\)\s*\^\s*(ror\d+|Sh)\(x,\s*(\d+)\)\s*\^\s*(ror\d+|Sh)\(x,\s*(\d+)\)\s*;", body)
    if not m:
        raise RuntimeError("%s: body of %s not recognised" % (rel, fn))
    got = "".join("s" if m.group(i) == "Sh" else "r" for i in (1, 3, 5))
    if got != kinds:
        raise RuntimeError("%s: %s uses operations %s, model expects %s" % (rel, fn, got, kinds))
    return [int(m.group(i)) for i in (2, 4, 6)]


def nlist(vals, per=4, hexw=None):
    items = [("0x%0*x" % (hexw, v)) if hexw else str(v) for v in vals]
    lines = []
    for i in range(0, len(items), per):
        lines.append("   " + "; ".join(items[i:i + per]))
    return "[\n" + ";\n".join(lines) + "]"


def parse(repo=None):
    T = {}
    md5c, md5h = _read("tlx/digest/md5.cpp"), _read("tlx/digest/md5.hpp")
    T["md5_Worder"] = _array(md5c, "Worder", 64, "md5.cpp")
    T["md5_Rorder"] = _array(md5c, "Rorder", 64, "md5.cpp")
    T["md5_Korder"] = _array(md5c, "Korder", 64, "md5.cpp")
    T["md5_IV"] = _iv(md5c, 4, "md5.cpp")
    T["md5_geom"] = _geometry(md5c, md5h, "MD5", "md5.cpp", "md5.hpp")

    s1c, s1h = _read("tlx/digest/sha1.cpp"), _read("tlx/digest/sha1.hpp")
    T["sha1_IV"] = _iv(s1c, 5, "sha1.cpp")
    comp = _body(s1c, r"void\s+sha1_compress\s*\([^)]*\)\s*\{", "sha1.cpp")
    ks = re.findall(r"\+\s*W\[i\]\s*\+\s*(0[xX][0-9a-fA-F]+[uUlL]*)\s*\)", comp)
    if len(ks) != 4:
        raise RuntimeError("sha1.cpp: expected 4 round constants in sha1_compress, found %d" % len(ks))
    T["sha1_K"] = [_num(k) for k in ks]
    T["sha1_geom"] = _geometry(s1c, s1h, "SHA1", "sha1.cpp", "sha1.hpp")

    s2c, s2h = _read("tlx/digest/sha256.cpp"), _read("tlx/digest/sha256.hpp")
    T["sha256_K"] = _array(s2c, "K", 64, "sha256.cpp")
    T["sha256_IV"] = _iv(s2c, 8, "sha256.cpp")
    T["sha256_geom"] = _geometry(s2c, s2h, "SHA256", "sha256.cpp", "sha256.hpp")
    for fn, kinds in (("Sigma0", "rrr"), ("Sigma1", "rrr"), ("Gamma0", "rrs"), ("Gamma1", "rrs")):
        T["sha256_" + fn] = _rots(s2c, fn, kinds, "sha256.cpp")

    s5c, s5h = _read("tlx/digest/sha512.cpp"), _read("tlx/digest/sha512.hpp")
    T["sha512_K"] = _array(s5c, "K", 80, "sha512.cpp")
    T["sha512_IV"] = _iv(s5c, 8, "sha512.cpp")
    T["sha512_geom"] = _geometry(s5c, s5h, "SHA512", "sha512.cpp", "sha512.hpp")
    for fn, kinds in (("Sigma0", "rrr"), ("Sigma1", "rrr"), ("Gamma0", "rrs"), ("Gamma1", "rrs")):
        T["sha512_" + fn] = _rots(s5c, fn, kinds, "sha512.cpp")

    hx = _read("tlx/string/hexdump.cpp")
    for fn, key in (("hexdump", "hex_uc"), ("hexdump_lc", "hex_lc")):
        body = _body(hx, r"std::string\s+%s\s*\(\s*const\s+void\s*\*\s*const\s+data\s*,\s*size_t\s+size\s*\)\s*\{" % fn, "hexdump.cpp")
        m = re.search(r"xdigits\[16\]\s*=\s*\{([^{}]*)\}", body)
        if not m:
            raise RuntimeError("hexdump.cpp: xdigits table of %s not found" % fn)
        chars = re.findall(r"'(.)'", m.group(1))
        if len(chars) != 16:
            raise RuntimeError("hexdump.cpp: xdigits table of %s has %d entries" % (fn, len(chars)))
        T[key] = [ord(c) for c in chars]

    sp = _read("tlx/siphash.hpp")
    plain = _body(sp, r"siphash_plain\s*\([^)]*\)\s*\{", "siphash.hpp")
    init = re.findall(r"v([0-3])\s*=\s*k([01])\s*\^\s*(0[xX][0-9a-fA-F]+[uUlL]*)\s*;", plain)
    if [(a, b) for a, b, _ in init] != [("0", "0"), ("1", "1"), ("2", "0"), ("3", "1")]:
        raise RuntimeError("siphash.hpp: initialisation of v0..v3 in siphash_plain not recognised: %s" % init)
    T["sip_init"] = [_num(c) for _, _, c in init]
    mac = re.search(r"#define\s+TLX_SIPCOMPRESS\(\)(.*?)\n\s*\n", plain, flags=re.S)
    if not mac:
        raise RuntimeError("siphash.hpp: TLX_SIPCOMPRESS of siphash_plain not found")
    steps = re.findall(r"(v[0-3])\s*(\+=|\^=|=)\s*(?:rol64\(\s*(v[0-3])\s*,\s*(\d+)\s*\)|(v[0-3]))\s*;", mac.group(1))
    shape = [(a, op, (r or p)) for a, op, r, _, p in steps]
    want = [("v0", "+=", "v1"), ("v2", "+=", "v3"), ("v1", "=", "v1"), ("v3", "=", "v3"), ("v1", "^=", "v0"),
            ("v3", "^=", "v2"), ("v0", "=", "v0"), ("v2", "+=", "v1"), ("v0", "+=", "v3"), ("v1", "=", "v1"),
            ("v3", "=", "v3"), ("v1", "^=", "v2"), ("v3", "^=", "v0"), ("v2", "=", "v2")]
    if shape != want:
        raise RuntimeError("siphash.hpp: TLX_SIPCOMPRESS of siphash_plain has an unexpected statement sequence: %s" % shape)
    T["sip_rots"] = [int(n) for _, _, r, n, _ in steps if r]
    if len(T["sip_rots"]) != 6:
        raise RuntimeError("siphash.hpp: expected 6 rotations in TLX_SIPCOMPRESS")
    m = re.search(r"v2\s*\^=\s*(0[xX][0-9a-fA-F]+)\s*;", plain)
    if not m:
        raise RuntimeError("siphash.hpp: finalisation constant (v2 ^= 0xff) not found")
    T["sip_final"] = _num(m.group(1))
    m = re.search(r"last7\s*=\s*static_cast<std::uint64_t>\(len\s*&\s*(0[xX][0-9a-fA-F]+)\)\s*<<\s*(\d+)\s*;", plain)
    if not m:
        raise RuntimeError("siphash.hpp: last7 initialisation not found")
    T["sip_lenmask"], T["sip_lenshift"] = _num(m.group(1)), int(m.group(2))
    tails = re.findall(r"case\s+(\d+)\s*:\s*last7\s*\|=\s*static_cast<std::uint64_t>\(m\[i\s*\+\s*(\d+)\]\)(?:\s*<<\s*(\d+))?\s*;", plain)
    tl = [(int(a), int(b), int(c or 0)) for a, b, c in tails]
    if [a for a, _, _ in tl] != [7, 6, 5, 4, 3, 2, 1]:
        raise RuntimeError("siphash.hpp: tail switch of siphash_plain not recognised: %s" % tl)
    T["sip_tail"] = tl

    m = re.search(r"siphash_init\[2\]\s*=\s*\{\s*\{\{\s*([^{}]*?)\}\}\s*,\s*\{\{\s*([^{}]*?)\}\}\s*\}", sp)
    if not m:
        raise RuntimeError("siphash.hpp: siphash_init not found")
    T["sse_init"] = [_num(x) for x in m.group(1).split(",")] + [_num(x) for x in m.group(2).split(",")]
    m = re.search(r"siphash_final\s*=\s*\{\s*\{\s*([^{}]*?)\}\s*\}", sp)
    if not m:
        raise RuntimeError("siphash.hpp: siphash_final not found")
    T["sse_final"] = [_num(x) for x in m.group(1).split(",")]
    if len(T["sse_init"]) != 4 or len(T["sse_final"]) != 2:
        raise RuntimeError("siphash.hpp: siphash_init/siphash_final have an unexpected size")
    sse = _body(sp, r"siphash_sse2\s*\([^)]*\)\s*\{", "siphash.hpp")
    mac = re.search(r"#define\s+TLX_SIPCOMPRESS\(\)(.*?)\n\s*\n", sse, flags=re.S)
    if not mac:
        raise RuntimeError("siphash.hpp: TLX_SIPCOMPRESS of siphash_sse2 not found")
    mt = mac.group(1)
    T["sse_shuffles"] = [tuple(int(x) for x in g) for g in re.findall(r"_MM_SHUFFLE\((\d),\s*(\d),\s*(\d),\s*(\d)\)", mt)]
    T["sse_shifts"] = [(int(a), int(b) - int(c)) for a, b, c in re.findall(r"_mm_slli_epi64\(\w+,\s*(\d+)\),\s*_mm_srli_epi64\(\w+,\s*(\d+)\s*-\s*(\d+)\)", mt)]
    if len(T["sse_shuffles"]) != 5 or len(T["sse_shifts"]) != 3:
        raise RuntimeError("siphash.hpp: SSE2 TLX_SIPCOMPRESS: %d shuffles / %d rotate pairs, expected 5 / 3" % (len(T["sse_shuffles"]), len(T["sse_shifts"])))
    fs = re.findall(r"_MM_SHUFFLE\((\d),\s*(\d),\s*(\d),\s*(\d)\)", sse[sse.index("#undef") - 400:sse.index("#undef")])
    if len(fs) != 1:
        raise RuntimeError("siphash.hpp: final lane fold of siphash_sse2 not recognised")
    T["sse_final_shuffle"] = tuple(int(x) for x in fs[0])
    return T


def coq_text(T):
    o = ["(* GENERATED by translate/digest_tables.py from /repo/tlx/digest/*.{cpp,hpp}, tlx/string/hexdump.cpp,",
         "   tlx/siphash.hpp -- do not edit; rewritten on every check run *)",
         "From Coq Require Import NArith List.", "Import ListNotations.", "Local Open Scope N_scope.", ""]
    o.append("Definition md5_Worder : list nat := %s%%nat." % nlist(T["md5_Worder"], 16))
    o.append("Definition md5_Rorder : list N := %s." % nlist(T["md5_Rorder"], 16))
    o.append("Definition md5_Korder : list N := %s." % nlist(T["md5_Korder"], 4, 8))
    o.append("Definition md5_IV : list N := %s." % nlist(T["md5_IV"], 4, 8))
    o.append("Definition sha1_IV : list N := %s." % nlist(T["sha1_IV"], 5, 8))
    o.append("Definition sha1_K : list N := %s." % nlist(T["sha1_K"], 4, 8))
    o.append("Definition sha256_K : list N := %s." % nlist(T["sha256_K"], 4, 8))
    o.append("Definition sha256_IV : list N := %s." % nlist(T["sha256_IV"], 4, 8))
    o.append("Definition sha512_K : list N := %s." % nlist(T["sha512_K"], 3, 16))
    o.append("Definition sha512_IV : list N := %s." % nlist(T["sha512_IV"], 2, 16))
    for h in ("sha256", "sha512"):
        for fn in ("Sigma0", "Sigma1", "Gamma0", "Gamma1"):
            o.append("Definition %s_%s : list N := %s." % (h, fn, nlist(T[h + "_" + fn], 3)))
    for h in ("md5", "sha1", "sha256", "sha512"):
        B, P, L, D = T[h + "_geom"]
        o.append("Definition %s_B : nat := %d%%nat.  Definition %s_P : nat := %d%%nat.  Definition %s_L : nat := %d%%nat.  "
                 "Definition %s_D : nat := %d%%nat." % (h, B, h, P, h, L, h, D))
    o.append("Definition hex_uc : list N := %s." % nlist(T["hex_uc"], 16))
    o.append("Definition hex_lc : list N := %s." % nlist(T["hex_lc"], 16))
    o.append("Definition sip_init : list N := %s." % nlist(T["sip_init"], 2, 16))
    o.append("Definition sip_rots : list N := %s." % nlist(T["sip_rots"], 6))
    o.append("Definition sip_final : N := %d." % T["sip_final"])
    o.append("Definition sip_lenmask : N := %d.  Definition sip_lenshift : N := %d." % (T["sip_lenmask"], T["sip_lenshift"]))
    o.append("(* tail switch: (case label, byte index, shift) *)")
    o.append("Definition sip_tail_table : list (nat * nat * N) := [%s]." % "; ".join("(%d%%nat, %d%%nat, %d)" % t for t in T["sip_tail"]))
    o.append("Definition sse_init : list N := %s." % nlist(T["sse_init"], 2, 16))
    o.append("Definition sse_final : list N := %s." % nlist(T["sse_final"], 2, 16))
    o.append("(* _MM_SHUFFLE(z,y,x,w) immediates of the SSE2 TLX_SIPCOMPRESS in order of appearance *)")
    o.append("Definition sse_shuffles : list (nat * nat * nat * nat) := [%s]." % "; ".join("(%d, %d, %d, %d)%%nat" % s for s in T["sse_shuffles"]))
    o.append("Definition sse_final_shuffle : nat * nat * nat * nat := (%d, %d, %d, %d)%%nat." % T["sse_final_shuffle"])
    o.append("(* (left shift, right shift) pairs of the three or(slli, srli) rotations *)")
    o.append("Definition sse_shifts : list (N * N) := [%s]." % "; ".join("(%d, %d)" % s for s in T["sse_shifts"]))
    return "\n".join(o) + "\n"


def generate(ck):
    T = parse()
    ck.c14_tables = T
    return {"Tables_C14_gen.v": coq_text(T)}


GENERATE = [generate]

if __name__ == "__main__":
    sys.stdout.write(coq_text(parse()))
