"""C14 translator: regenerate coq/gen/Tables_C14_gen.v from /repo's digest and SipHash sources.

Only genuine DATA is taken from the sources, and it is found by shape / content, not by identifier or statement syntax:
  md5.cpp     the three 64-entry tables (message-word order: all values < 16; rotation amounts: all < 32; sine constants:
              32-bit), the four initial state words
  sha1.cpp    five initial state words, the four round constants
  sha256.cpp  the 64 32-bit round constants, eight initial state words, rotation / shift amounts of Sigma0/1, Gamma0/1
  sha512.cpp  the 80 64-bit round constants, eight initial state words, rotation / shift amounts
  string/hexdump.cpp   the upper-case and the lower-case table of 16 hex digits
  siphash.hpp the four initialisation constants (twice: portable order v0..v3, SSE2 table order v0,v2,v1,v3), the six rotation
              amounts of the round, the finalisation constant, the _MM_SHUFFLE immediates and the slli/srli amounts of the SSE2 round
Numeric literals may carry casts (u32(..), UINT64_C(..), static_cast<..>(..)), suffixes (u, ul, ULL, ...), digit separators,
either hex case; tables may be `static const`, `constexpr`, split over lines, renamed, moved.
Search order for every item: (1) shape/content in the comment-stripped text, (2) where possible EXECUTION of a tiny program
against /repo (initial state words of a default-constructed object; named arrays of the .cpp), (3) the value the hand-written
model assumes (the standard's), recorded in `notes` as "not located". (3) never fails the check: the behaviour of the code
is tied by the correspondence run (every implementation result against the extracted model, hashlib and SipHash-2-4), and a
model constant that disagrees with the code shows there.
NOT extracted, by decision (structure, not data; tied by the correspondence run only): block geometry of process()/finalize()
(sizeof(buf_), the "> 56 / > 112" test, where the length is stored), the SipHash tail handling, loop shapes, padding code.
The corresponding definitions of the generated file are the model's own constants and are emitted unchanged on every run.
RuntimeError only if a source file cannot be read.
"""
import os
import re
import sys

sys.path.insert(0, os.path.join(os.path.dirname(os.path.abspath(__file__)), "..", "lib"))
import verif  # noqa: E402

# the model's own constants = the standards' values (used for structure, and as last resort for data that cannot be located)
STD = {
    "md5_Worder": [0, 1, 2, 3, 4, 5, 6, 7, 8, 9, 10, 11, 12, 13, 14, 15, 1, 6, 11, 0, 5, 10, 15, 4, 9, 14, 3, 8, 13, 2, 7, 12,
                   5, 8, 11, 14, 1, 4, 7, 10, 13, 0, 3, 6, 9, 12, 15, 2, 0, 7, 14, 5, 12, 3, 10, 1, 8, 15, 6, 13, 4, 11, 2, 9],
    "md5_Rorder": [7, 12, 17, 22] * 4 + [5, 9, 14, 20] * 4 + [4, 11, 16, 23] * 4 + [6, 10, 15, 21] * 4,
    "md5_IV": [0x67452301, 0xefcdab89, 0x98badcfe, 0x10325476],
    "sha1_IV": [0x67452301, 0xefcdab89, 0x98badcfe, 0x10325476, 0xc3d2e1f0],
    "sha1_K": [0x5a827999, 0x6ed9eba1, 0x8f1bbcdc, 0xca62c1d6],
    "sha256_IV": [0x6a09e667, 0xbb67ae85, 0x3c6ef372, 0xa54ff53a, 0x510e527f, 0x9b05688c, 0x1f83d9ab, 0x5be0cd19],
    "sha512_IV": [0x6a09e667f3bcc908, 0xbb67ae8584caa73b, 0x3c6ef372fe94f82b, 0xa54ff53a5f1d36f1,
                  0x510e527fade682d1, 0x9b05688c2b3e6c1f, 0x1f83d9abfb41bd6b, 0x5be0cd19137e2179],
    "sha256_Sigma0": [2, 13, 22], "sha256_Sigma1": [6, 11, 25], "sha256_Gamma0": [7, 18, 3], "sha256_Gamma1": [17, 19, 10],
    "sha512_Sigma0": [28, 34, 39], "sha512_Sigma1": [14, 18, 41], "sha512_Gamma0": [1, 8, 7], "sha512_Gamma1": [19, 61, 6],
    # structure (never parsed): (sizeof(buf_), threshold of the "curlen_ > P" test, offset of the stored length, digest bytes)
    "md5_geom": (64, 56, 56, 16), "sha1_geom": (64, 56, 56, 20), "sha256_geom": (64, 56, 56, 32), "sha512_geom": (128, 112, 120, 64),
    "hex_uc": [ord(c) for c in "0123456789ABCDEF"], "hex_lc": [ord(c) for c in "0123456789abcdef"],
    "sip_init": [0x736f6d6570736575, 0x646f72616e646f6d, 0x6c7967656e657261, 0x7465646279746573],
    "sip_rots": [13, 16, 32, 17, 21, 32], "sip_final": 255,
    # structure (never parsed): last7 = (len & 0xff) << 56 and the tail bytes (case label, byte index, shift)
    "sip_lenmask": 255, "sip_lenshift": 56,
    "sip_tail": [(7, 6, 48), (6, 5, 40), (5, 4, 32), (4, 3, 24), (3, 2, 16), (2, 1, 8), (1, 0, 0)],
    "sse_final": [0, 255],
    "sse_shuffles": [(1, 0, 3, 2), (2, 1, 0, 3), (0, 1, 3, 2), (1, 0, 3, 2), (0, 1, 3, 2)], "sse_final_shuffle": (1, 0, 3, 2),
    "sse_shifts": [(13, 51), (17, 47), (21, 43)],
}
STD["sse_init"] = [STD["sip_init"][i] for i in (0, 2, 1, 3)]
# md5 sine table and the SHA-2 round constants are large: they have no model default; if they can neither be located nor
# obtained by execution the previous generated file is kept (see generate()).

LIT = r"(?<![\w.])(0[xX][0-9a-fA-F']+|\d[\d']*)[uUlL]*"


def _strip(text):
    text = re.sub(r"/\*.*?\*/", " ", text, flags=re.S)
    return re.sub(r"//[^\n]*", " ", text)


def _read(rel):
    p = os.path.join(verif.REPO, rel)
    try:
        return _strip(open(p).read())
    except OSError as e:
        raise RuntimeError("cannot read %s: %s" % (rel, e))


def _lit(tok):
    """value of a token that is one numeric literal, possibly wrapped in casts / macros / a suffix; None otherwise"""
    m = re.search(LIT, tok)
    if not m:
        return None
    rest = tok[:m.start()] + tok[m.end():]
    if re.search(r"[^\w\s():<>,]", rest) or re.search(r"\d", re.sub(r"[A-Za-z_]\w*", "", rest)):
        return None            # operators or a second number: an expression, not a literal
    return int(m.group(1).replace("'", ""), 0)


def _lists(text):
    """every innermost brace list all of whose entries are numeric (or character) literals, in order of appearance"""
    out = []
    for m in re.finditer(r"\{([^{}]*)\}", text):
        toks = [t for t in m.group(1).split(",") if t.strip()]
        chars = [re.fullmatch(r"\s*'(.)'\s*", t) for t in toks]
        if toks and all(chars):
            out.append(("chars", [ord(c.group(1)) for c in chars], m.start()))
            continue
        vals = [_lit(t) for t in toks]
        if toks and all(v is not None for v in vals):
            out.append(("nums", vals, m.start()))
    return out


def _exec(ck, code, sources):
    """compile + run a tiny program against /repo (fallback only); returns its stdout lines or None"""
    if ck is None or not hasattr(ck, "scratch"):
        return None
    src = os.path.join(ck.scratch, "c14_translate_probe_%d.cpp" % abs(hash(code)))
    open(src, "w").write(code)
    exe = src[:-4]
    rc, _ = verif.sh(["g++", "-std=c++17", "-O0", "-w", "-I", verif.REPO, src] + [os.path.join(verif.REPO, s) for s in sources] + ["-o", exe], timeout=180)
    if rc != 0:
        return None
    rc, out = verif.sh([exe], timeout=60)
    return out.split() if rc == 0 else None


def _iv(ck, text, cls, hdr, cpp, n, bits, notes, key):
    """initial state words: (1) n assignments <array>[i] = <literal> with i = 0..n-1 each exactly once, or exactly one brace list
    of n large literals; (2) execution: the state of a default-constructed object; (3) the standard's"""
    asg = {}
    dup = False
    for m in re.finditer(r"(\w+)\s*\[\s*(\d+)\s*\]\s*=\s*([^;=]+);", text):
        v = _lit(m.group(3))
        if v is not None and v >= 1 << 16:
            k = (m.group(1), int(m.group(2)))
            dup = dup or k in asg
            asg[k] = v
    for name in sorted({k[0] for k in asg}):
        idx = sorted(i for (nm, i) in asg if nm == name)
        if idx == list(range(n)) and not dup:
            notes[key] = "shape: %d indexed assignments to %s[]" % (n, name)
            return [asg[(name, i)] for i in range(n)]
    cand = [v for kind, v, _ in _lists(text) if kind == "nums" and len(v) == n and all(1 << 16 <= x < 1 << bits for x in v)]
    if len(cand) == 1:
        notes[key] = "shape: the only brace list of %d large literals" % n
        return cand[0]
    out = _exec(ck, "#include <cstdio>\n#include <cstdint>\n#include <cstddef>\n#include <string>\n#include <tlx/container/string_view.hpp>\n"
                    "#define private public\n#include <%s>\n#undef private\nint main() { tlx::%s h; for (auto w : h.state_) "
                    "std::printf(\"%%llx\\n\", static_cast<unsigned long long>(w)); }\n" % (hdr, cls), [cpp, "tlx/string/hexdump.cpp"])
    if out and len(out) == n:
        notes[key] = "execution: state_ of a default-constructed %s" % cls
        return [int(x, 16) for x in out]
    notes[key] = "NOT LOCATED: the standard's initial value is used"
    return list(STD[key])


def _table(ck, text, n, pred, cppfile, names, fmt, notes, key):
    """a table of n literals satisfying pred: (1) the only such brace list, (2) execution by candidate names, (3) model default / None"""
    cand = [v for kind, v, _ in _lists(text) if kind == "nums" and len(v) == n and pred(v)]
    if len(cand) >= 1 and all(c == cand[0] for c in cand):
        notes[key] = "shape: brace list of %d literals" % n
        return cand[0]
    for nm in names:
        out = _exec(ck, "#include <cstdio>\n#include <%s>\nint main() { for (auto w : %s) std::printf(\"%%llx\\n\", static_cast<unsigned long long>(w)); }\n"
                    % (cppfile, nm), ["tlx/string/hexdump.cpp"])
        if out and len(out) == n and pred([int(x, 16) for x in out]):
            notes[key] = "execution: array %s" % nm
            return [int(x, 16) for x in out]
    if key in STD:
        notes[key] = "NOT LOCATED: the standard's table is used"
        return list(STD[key])
    notes[key] = "NOT LOCATED"
    return None


def _fn_body(text, name):
    m = re.search(r"\b%s\s*\([^;{}]*\)\s*(?:const\s*)?(?:noexcept\s*)?\{" % re.escape(name), text)
    if not m:
        return None
    depth = 0
    for j in range(m.end() - 1, len(text)):
        depth += text[j] == "{"
        depth -= text[j] == "}"
        if depth == 0:
            return text[m.end():j]
    return None


def _sigma(text, name, kinds, notes, key):
    """rotation (and shift) amounts used in function <name>: rotations in any order, then the shift"""
    body = _fn_body(text, name)
    if body is not None:
        rots = [int(x) for x in re.findall(r"\bro[rl]\w*\s*\(\s*\w+\s*,\s*(\d+)\s*\)", body)]
        body2 = re.sub(r"\bro[rl]\w*\s*\([^()]*\)", " ", body)
        shs = [int(x) for x in re.findall(r"\b\w+\s*\(\s*\w+\s*,\s*(\d+)\s*\)", body2)] + [int(x) for x in re.findall(r">>\s*(\d+)", body2)]
        want = STD[key]
        if kinds == "rrr" and len(rots) == 3 and not shs:
            notes[key] = "shape: three rotations in %s()" % name
            return sorted(rots, key=lambda r: (want.index(r) if r in want else 99, r))    # xor is commutative: canonical order
        if kinds == "rrs" and len(rots) == 2 and len(shs) == 1:
            notes[key] = "shape: two rotations and a shift in %s()" % name
            return sorted(rots, key=lambda r: (want[:2].index(r) if r in want[:2] else 99, r)) + shs
    notes[key] = "NOT LOCATED (function %s): the standard's amounts are used" % name
    return list(STD[key])


def parse(ck=None):
    T, notes = {}, {}
    big32 = lambda v: all(0 <= x < 1 << 32 for x in v) and max(v) >= 1 << 16
    md5 = _read("tlx/digest/md5.cpp")
    T["md5_Worder"] = _table(ck, md5, 64, lambda v: max(v) < 16 and all(sorted(v[i:i + 16]) == list(range(16)) for i in (0, 16, 32, 48)),
                             "tlx/digest/md5.cpp", ["tlx::digest_detail::Worder"], None, notes, "md5_Worder")
    T["md5_Rorder"] = _table(ck, md5, 64, lambda v: max(v) < 32 and not max(v) < 16, "tlx/digest/md5.cpp", ["tlx::digest_detail::Rorder"], None, notes, "md5_Rorder")
    T["md5_Korder"] = _table(ck, md5, 64, big32, "tlx/digest/md5.cpp", ["tlx::digest_detail::Korder", "tlx::digest_detail::K"], None, notes, "md5_Korder")
    T["md5_IV"] = _iv(ck, md5, "MD5", "tlx/digest/md5.hpp", "tlx/digest/md5.cpp", 4, 32, notes, "md5_IV")

    s1 = _read("tlx/digest/sha1.cpp")
    T["sha1_IV"] = _iv(ck, s1, "SHA1", "tlx/digest/sha1.hpp", "tlx/digest/sha1.cpp", 5, 32, notes, "sha1_IV")
    # the four round constants: the remaining distinct 32-bit hex literals of the file, in order of first appearance
    seen = []
    for m in re.finditer(r"0[xX][0-9a-fA-F']{7,8}(?![0-9a-fA-F'])", s1):
        v = int(m.group(0).replace("'", ""), 16)
        if v not in T["sha1_IV"] and v not in seen and v != 0xffffffff:
            seen.append(v)
    if len(seen) == 4:
        T["sha1_K"] = seen; notes["sha1_K"] = "shape: the four other 32-bit hex literals of sha1.cpp in order of appearance"
    else:
        T["sha1_K"] = list(STD["sha1_K"]); notes["sha1_K"] = "NOT LOCATED (%d candidates): the standard's constants are used" % len(seen)

    for h, n, bits, names in (("sha256", 64, 32, ["tlx::K"]), ("sha512", 80, 64, ["tlx::digest_detail::K"])):
        txt = _read("tlx/digest/%s.cpp" % h)
        pred = (lambda b: lambda v: all(0 <= x < 1 << b for x in v) and max(v) >= 1 << (b - 8))(bits)
        T[h + "_K"] = _table(ck, txt, n, pred, "tlx/digest/%s.cpp" % h, names, None, notes, h + "_K")
        T[h + "_IV"] = _iv(ck, txt, h.upper(), "tlx/digest/%s.hpp" % h, "tlx/digest/%s.cpp" % h, 8, bits, notes, h + "_IV")
        for fn, kinds in (("Sigma0", "rrr"), ("Sigma1", "rrr"), ("Gamma0", "rrs"), ("Gamma1", "rrs")):
            T["%s_%s" % (h, fn)] = _sigma(txt, fn, kinds, notes, "%s_%s" % (h, fn))
    for h in ("md5", "sha1", "sha256", "sha512"):
        T[h + "_geom"] = STD[h + "_geom"]

    hx = _read("tlx/string/hexdump.cpp")
    tabs = [v for kind, v, _ in _lists(hx) if kind == "chars" and len(v) == 16] + \
           [[ord(c) for c in m.group(1)] for m in re.finditer(r'"([0-9a-fA-F]{16})"', hx)]
    for key, probe in (("hex_uc", ord("A")), ("hex_lc", ord("a"))):
        mine = [t for t in tabs if probe in t]
        if mine and all(t == mine[0] for t in mine):
            T[key] = mine[0]; notes[key] = "shape: table of 16 digit characters"
        else:
            T[key] = list(STD[key]); notes[key] = "NOT LOCATED: the usual digits are used"

    sp = _read("tlx/siphash.hpp")
    c64 = [int(m.group(0).replace("'", ""), 16) for m in re.finditer(r"0[xX][0-9a-fA-F']{15,16}(?![0-9a-fA-F'])", sp)]
    c64 = [v for v in c64 if v >= 1 << 56]
    if len(c64) == 8 and sorted(c64[:4]) == sorted(c64[4:]) and len(set(c64[:4])) == 4:
        T["sip_init"], T["sse_init"] = c64[:4], c64[4:]
        notes["sip_init"] = notes["sse_init"] = "shape: the eight 64-bit hex literals of siphash.hpp (portable order, then SSE2 table order)"
    elif len(set(c64)) == 4 and len(c64) == 4:
        T["sip_init"] = c64; T["sse_init"] = [c64[i] for i in (0, 2, 1, 3)]
        notes["sip_init"] = notes["sse_init"] = "shape: four 64-bit hex literals (one shared table)"
    else:
        T["sip_init"], T["sse_init"] = list(STD["sip_init"]), list(STD["sse_init"])
        notes["sip_init"] = notes["sse_init"] = "NOT LOCATED (%d candidates): the standard's constants are used" % len(c64)
    rots = [int(x) for x in re.findall(r"\brol64\w*\s*\(\s*\w+\s*,\s*(\d+)\s*\)", sp)]
    if len(rots) == 6:
        T["sip_rots"] = rots; notes["sip_rots"] = "shape: the six rol64(v, n) of siphash.hpp in order of appearance"
    else:
        T["sip_rots"] = list(STD["sip_rots"]); notes["sip_rots"] = "NOT LOCATED (%d rol64 calls): the standard's amounts are used" % len(rots)
    m = re.search(r"\bv2\s*\^=\s*" + LIT + r"\s*;", sp)
    T["sip_final"] = int(m.group(1), 0) if m else STD["sip_final"]
    notes["sip_final"] = "shape: v2 ^= <literal>" if m else "NOT LOCATED: 0xff is used"
    fin = [v for kind, v, _ in _lists(sp) if kind == "nums" and len(v) == 2 and v[0] == 0 and 0 < v[1] < 1 << 16]
    T["sse_final"] = fin[0] if len(fin) == 1 else list(STD["sse_final"])
    notes["sse_final"] = "shape: brace list {0, x}" if len(fin) == 1 else "NOT LOCATED: {0, 0xff} is used"
    shuf = [tuple(int(x) for x in g) for g in re.findall(r"_MM_SHUFFLE\s*\(\s*(\d)\s*,\s*(\d)\s*,\s*(\d)\s*,\s*(\d)\s*\)", sp)]
    if len(shuf) == 6:
        T["sse_shuffles"], T["sse_final_shuffle"] = shuf[:5], shuf[5]
        notes["sse_shuffles"] = "shape: the six _MM_SHUFFLE immediates in order of appearance"
    else:
        T["sse_shuffles"], T["sse_final_shuffle"] = list(STD["sse_shuffles"]), STD["sse_final_shuffle"]
        notes["sse_shuffles"] = "NOT LOCATED (%d immediates): the model's are used" % len(shuf)

    def amounts(fn):
        out = []
        for e in re.findall(r"%s\s*\(\s*\w+\s*,\s*([\d\s+\-]+)\)" % fn, sp):
            if re.fullmatch(r"[\d\s+\-]+", e) and re.search(r"\d", e):
                out.append(eval(e, {"__builtins__": {}}, {}))
        return out
    sl, sr = amounts("_mm_slli_epi64"), amounts("_mm_srli_epi64")
    if len(sl) == 3 and len(sr) == 3:
        T["sse_shifts"] = list(zip(sl, sr)); notes["sse_shifts"] = "shape: the three slli / srli amounts in order of appearance"
    else:
        T["sse_shifts"] = list(STD["sse_shifts"]); notes["sse_shifts"] = "NOT LOCATED: the model's are used"
    for k in ("sip_lenmask", "sip_lenshift", "sip_tail"):
        T[k] = STD[k]
    T["_notes"] = notes
    return T


def nlist(vals, per=4, hexw=None):
    items = [("0x%0*x" % (hexw, v)) if hexw else str(v) for v in vals]
    lines = []
    for i in range(0, len(items), per):
        lines.append("   " + "; ".join(items[i:i + per]))
    return "[\n" + ";\n".join(lines) + "]"


def coq_text(T):
    o = ["(* GENERATED by translate/digest_tables.py from /repo/tlx/digest/*.{cpp,hpp}, tlx/string/hexdump.cpp,",
         "   tlx/siphash.hpp -- do not edit; rewritten on every check run *)",
         "From Coq Require Import NArith List.", "Import ListNotations.", "Local Open Scope N_scope.", ""]
    o.append("Definition md5_Worder : list nat := %s%%nat." % nlist(T["md5_Worder"], 16))
    o.append("Definition md5_Rorder : list N := %s." % nlist(T["md5_Rorder"], 16))
    o.append("Definition md5_Korder : list N := %s." % nlist(T["md5_Korder"], 4, 8))
    o.append("Definition md5_IV : list N := %s." % nlist(T["md5_IV"], 4, 8))
    o.append("Definition sha1_IV : list N := %s." % nlist(T["sha1_IV"], 5, 8))
    o.append("Definition sha1_K : list N := %s." % nlist(T["sha1_K"], 4, 8))
    o.append("Definition sha256_K : list N := %s." % nlist(T["sha256_K"], 4, 8))
    o.append("Definition sha256_IV : list N := %s." % nlist(T["sha256_IV"], 4, 8))
    o.append("Definition sha512_K : list N := %s." % nlist(T["sha512_K"], 3, 16))
    o.append("Definition sha512_IV : list N := %s." % nlist(T["sha512_IV"], 2, 16))
    for h in ("sha256", "sha512"):
        for fn in ("Sigma0", "Sigma1", "Gamma0", "Gamma1"):
            o.append("Definition %s_%s : list N := %s." % (h, fn, nlist(T[h + "_" + fn], 3)))
    for h in ("md5", "sha1", "sha256", "sha512"):
        B, P, L, D = T[h + "_geom"]
        o.append("Definition %s_B : nat := %d%%nat.  Definition %s_P : nat := %d%%nat.  Definition %s_L : nat := %d%%nat.  "
                 "Definition %s_D : nat := %d%%nat." % (h, B, h, P, h, L, h, D))
    o.append("Definition hex_uc : list N := %s." % nlist(T["hex_uc"], 16))
    o.append("Definition hex_lc : list N := %s." % nlist(T["hex_lc"], 16))
    o.append("Definition sip_init : list N := %s." % nlist(T["sip_init"], 2, 16))
    o.append("Definition sip_rots : list N := %s." % nlist(T["sip_rots"], 6))
    o.append("Definition sip_final : N := %d." % T["sip_final"])
    o.append("Definition sip_lenmask : N := %d.  Definition sip_lenshift : N := %d." % (T["sip_lenmask"], T["sip_lenshift"]))
    o.append("(* tail switch: (case label, byte index, shift) *)")
    o.append("Definition sip_tail_table : list (nat * nat * N) := [%s]." % "; ".join("(%d%%nat, %d%%nat, %d)" % t for t in T["sip_tail"]))
    o.append("Definition sse_init : list N := %s." % nlist(T["sse_init"], 2, 16))
    o.append("Definition sse_final : list N := %s." % nlist(T["sse_final"], 2, 16))
    o.append("(* _MM_SHUFFLE(z,y,x,w) immediates of the SSE2 TLX_SIPCOMPRESS in order of appearance *)")
    o.append("Definition sse_shuffles : list (nat * nat * nat * nat) := [%s]." % "; ".join("(%d, %d, %d, %d)%%nat" % s for s in T["sse_shuffles"]))
    o.append("Definition sse_final_shuffle : nat * nat * nat * nat := (%d, %d, %d, %d)%%nat." % T["sse_final_shuffle"])
    o.append("(* (left shift, right shift) pairs of the three or(slli, srli) rotations *)")
    o.append("Definition sse_shifts : list (N * N) := [%s]." % "; ".join("(%d, %d)" % s for s in T["sse_shifts"]))
    return "\n".join(o) + "\n"


def generate(ck):
    T = parse(ck)
    notes = T.pop("_notes")
    missing = [k for k, v in T.items() if v is None]
    ck.c14_tables = T
    ck.c14_translation_notes = notes
    if missing:
        # a large table that can be neither located nor executed: keep the generated file of the last successful run
        # (the correspondence run still decides); nothing is written
        ck.c14_translation_notes["_kept_previous_generated_file_because_missing"] = missing
        return {}
    return {"Tables_C14_gen.v": coq_text(T)}


GENERATE = [generate]

if __name__ == "__main__":
    T_ = parse(None)
    for k_, v_ in sorted(T_.pop("_notes").items()):
        sys.stderr.write("%-16s %s\n" % (k_, v_))
    sys.stdout.write(coq_text(T_))
