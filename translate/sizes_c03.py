"""C03 translator: regenerate coq/gen/Sizes_C03_gen.v from /repo's string-sort headers.

The memory heuristics of radixsort_CE0/CE2/CE3/CI2/CI3 and multikey_quicksort compare the caller's `memory`
argument with sizeof-derived quantities, and the sorters switch algorithms at tuning thresholds.  Nothing here
depends on how those are spelled in the source:

* sizeof constants: a tiny C++ program compiled against /repo's headers prints them for every string-set
  representation, with and without LCP output.
* thresholds (radix -> insertion sort, 8-bit -> 16-bit radix, multikey quicksort -> insertion sort, and the
  stack-frame estimate of multikey quicksort) are determined by EXECUTION: the same program runs the real sorters
  over a probing string set (a GenericCharStringSet clone that counts get_char / get_uint8 / get_uint16 calls)
  on n = 1, 2, ... strings and reads the cut-off from which sub-sorter was entered.  Literals or named constants
  found in the text are used only as hints / cross-checks.
* the pivot rule of multikey quicksort is NOT regenerated: every in-range pivot is correct (C03_mkqs_partition is
  `forall pv`), the model keeps its built-in rule and the check compares contents and LCPs only.  The
  pseudo-median threshold is read from the text when it is recognisable (it only selects among pivots).
"""
import os
import re
import sys

sys.path.insert(0, os.path.join(os.path.dirname(os.path.abspath(__file__)), "..", "lib"))
import verif  # noqa: E402

REPS = [("UChar", "UCharStringSet"), ("CUChar", "CUCharStringSet"), ("StdString", "StdStringSet"),
        ("UPtr", "UPtrStdStringSet"), ("Suffix", "StringSuffixSet"), ("Char", "CharStringSet"), ("CChar", "CCharStringSet")]

SRC = r'''
#include <tlx/sort/strings.hpp>
#include <tlx/sort/strings/radix_sort.hpp>
#include <cstdio>
#include <cstdint>
#include <cstdlib>
#include <cstring>
#include <string>
#include <vector>
using namespace tlx::sort_strings_detail;
template <typename SS, typename SP>
static void dump(const char* name, int lcp) {
    typedef typename SP::WithShadow SH;
    printf("%s %d %zu %zu %zu %zu %zu %zu %zu %zu %zu %zu %zu\n", name, lcp, sizeof(size_t), sizeof(SS),
           sizeof(typename SS::String), sizeof(typename SS::Iterator),
           sizeof(RadixStep_CE0<SH>), sizeof(RadixStep_CE2<SH>), sizeof(RadixStep_CE3<SH>),
           sizeof(RadixStep_CI2<SP>), sizeof(RadixStep_CI3<SP>),
           sizeof(std::uint8_t), sizeof(std::uint16_t));
}

// ---- probing string set: GenericCharStringSet<unsigned char> with counters on the character extractors
static size_t c_char, c_u8, c_u16, c_u8_deep;
class ProbeSet : public GenericCharStringSetTraits<unsigned char>,
                 public StringSetBase<ProbeSet, GenericCharStringSetTraits<unsigned char> > {
public:
    typedef GenericCharStringSetTraits<unsigned char> Traits;
    typedef StringSetBase<ProbeSet, Traits> Base;
    typedef Traits::Char Char; typedef Traits::String String; typedef Traits::Iterator Iterator;
    typedef Traits::CharIterator CharIterator; typedef Traits::Container Container;
    ProbeSet(Iterator b, Iterator e) : b_(b), e_(e) {}
    explicit ProbeSet(const Container& c) : b_(c.first), e_(c.first + c.second) {}
    size_t size() const { return e_ - b_; }
    Iterator begin() const { return b_; }
    Iterator end() const { return e_; }
    String& operator[](Iterator i) const { return *i; }
    CharIterator get_chars(const String& s, size_t depth) const { return s + depth; }
    bool is_end(const String&, const CharIterator& i) const { return *i == 0; }
    std::string get_string(const String& s, size_t depth = 0) const { return std::string(reinterpret_cast<const char*>(s) + depth); }
    ProbeSet sub(Iterator b, Iterator e) const { return ProbeSet(b, e); }
    static Container allocate(size_t n) { return std::make_pair(new String[n], n); }
    static void deallocate(Container& c) { delete[] c.first; c.first = nullptr; }
    // counted extractors (hide the ones of StringSetBase)
    Char get_char(const String& s, size_t depth) const { ++c_char; return *(s + depth); }
    std::uint8_t get_uint8(const String& s, size_t depth) const { ++c_u8; if (depth > 0) ++c_u8_deep; return Base::get_uint8(s, get_chars(s, depth)); }
    std::uint16_t get_uint16(const String& s, size_t depth) const { ++c_u16; return Base::get_uint16(s, get_chars(s, depth)); }
private:
    Iterator b_, e_;
};

// n pairwise different strings (3 bytes, none 0); with `bucket` > 0 the last `bucket` strings share their first byte 0xFE
static std::vector<std::string> g_store;
static std::vector<unsigned char*> make(size_t n, size_t bucket) {
    g_store.assign(n, std::string());
    std::vector<unsigned char*> p(n);
    for (size_t i = 0; i < n; ++i) {
        std::string& s = g_store[i];
        if (i + bucket >= n) { size_t k = i + bucket - n; s.push_back(char(0xFE)); s.push_back(char(1 + k % 250)); s.push_back(char(1 + k / 250)); }
        else { s.push_back(char(1 + i % 253)); s.push_back(char(1 + (i / 253) % 253)); s.push_back(char(1 + i / (253 * 253))); }
        p[i] = reinterpret_cast<unsigned char*>(&s[0]);
    }
    return p;
}
enum { ALG_CE0, ALG_CE2, ALG_CE3, ALG_CI2, ALG_CI3, ALG_MKQS };
static void run(int alg, size_t n, size_t bucket, size_t memory) {
    std::vector<unsigned char*> p = make(n, bucket);
    c_char = c_u8 = c_u16 = c_u8_deep = 0;
    StringPtr<ProbeSet> sp(ProbeSet(p.data(), p.data() + n));
    switch (alg) {
    case ALG_CE0: radixsort_CE0(sp, 0, memory); break;
    case ALG_CE2: radixsort_CE2(sp, 0, memory); break;
    case ALG_CE3: radixsort_CE3(sp, 0, memory); break;
    case ALG_CI2: radixsort_CI2(sp, 0, memory); break;
    case ALG_CI3: radixsort_CI3(sp, 0, memory); break;
    default: multikey_quicksort(sp, 0, memory); break;
    }
    for (size_t i = 1; i < n; ++i) if (strcmp((const char*)p[i - 1], (const char*)p[i]) > 0) { printf("probe-unsorted %d %zu\n", alg, n); exit(3); }
}
// smallest n in [lo, hi] at which the 8-bit radix step (resp. the partition of mkqs) is entered, 0 if never
static size_t first_radix8(int alg) { for (size_t n = 1; n <= 300; ++n) { run(alg, n, 0, 0); if (c_u8 > 0) return n; } return 0; }
static size_t first_bucket_radix8(int alg) {          // bucket size from which a bucket gets its own radix step
    for (size_t b = 2; b <= 300; ++b) { run(alg, 253 + b, b, 0); if (c_u8_deep > 0) return b; } return 0; }
static size_t first_partition() { for (size_t n = 1; n <= 300; ++n) { run(ALG_MKQS, n, 0, 0); if (c_char > 0) return n; } return 0; }
static size_t first_radix16(int alg, size_t hint) {
    auto is16 = [&](size_t n) { run(alg, n, 0, 0); return c_u16 > 0; };
    if (hint > 1 && hint < (1u << 22) && !is16(hint - 1) && is16(hint)) return hint;
    size_t hi = 1u << 21; if (!is16(hi)) return 0;
    size_t lo = 1;                                         // invariant: !is16(lo), is16(hi)
    if (is16(lo)) return 1;
    while (hi - lo > 1) { size_t mid = lo + (hi - lo) / 2; if (is16(mid)) hi = mid; else lo = mid; }
    return hi;
}
int main(int argc, char** argv) {
    size_t hint16 = argc > 1 ? strtoul(argv[1], nullptr, 0) : 0;
@BODY@
    printf("ins_ce0 %zu\n", first_radix8(ALG_CE0));
    printf("ins_ce2 %zu\n", first_radix8(ALG_CE2));
    printf("ins_ci2 %zu\n", first_radix8(ALG_CI2));
    printf("insb_ce0 %zu\n", first_bucket_radix8(ALG_CE0));
    printf("insb_ce2 %zu\n", first_bucket_radix8(ALG_CE2));
    printf("insb_ci2 %zu\n", first_bucket_radix8(ALG_CI2));
    size_t mk = first_partition();
    printf("mkqs %zu\n", mk);
    // stack-frame estimate of mkqs: smallest memory limit (> 0) with which n = 300 strings are still partitioned
    size_t use1 = 0;
    for (size_t m = 1; m <= 4096; ++m) { run(ALG_MKQS, 300, 0, m); if (c_char > 0) { use1 = m; break; } }
    printf("mkqs_use_plus1 %zu %zu\n", use1, sizeof(ProbeSet));
    printf("radix16_ce3 %zu\n", first_radix16(ALG_CE3, hint16));
    printf("radix16_ci3 %zu\n", first_radix16(ALG_CI3, hint16));
    return 0;
}
'''


def _const_value(text, name):
    m = re.search(r"\b%s\s*=\s*(0x[0-9a-fA-F]+|\d+)" % re.escape(name), text)
    return int(m.group(1), 0) if m else None


def generate(ck):
    body = []
    for short, cls in REPS:
        body.append('    dump<%s, StringPtr<%s> >("%s", 0);' % (cls, cls, short))
        body.append('    dump<%s, StringLcpPtr<%s, std::uint32_t> >("%s", 1);' % (cls, cls, short))
    src = os.path.join(ck.scratch, "c03_sizes.cpp")
    with open(src, "w") as f:
        f.write(SRC.replace("@BODY@", "\n".join(body)))
    exe, log = ck.build_cpp("c03_sizes", [src], flags=["-std=c++17", "-O1"])
    if exe is None:
        raise RuntimeError("sizes / probe program does not compile against /repo:\n" + log[-3000:])
    rs = open(os.path.join(verif.REPO, "tlx/sort/strings/radix_sort.hpp")).read()
    mk = open(os.path.join(verif.REPO, "tlx/sort/strings/multikey_quicksort.hpp")).read()
    hint16 = _const_value(rs, "RADIX") or 65536
    rc, out = verif.sh([exe, str(hint16)], timeout=300)
    if rc != 0:
        raise RuntimeError("sizes / probe program failed rc=%d:\n%s" % (rc, out[-2000:]))
    vals = {}
    rows = []
    for line in out.splitlines():
        p = line.split()
        if len(p) == 13:
            rows.append((p[0], int(p[1])) + tuple(int(x) for x in p[2:]))
        elif len(p) >= 2 and p[0] != "probe-unsorted":
            vals[p[0]] = [int(x) for x in p[1:]]
    if len(rows) != 2 * len(REPS):
        raise RuntimeError("unexpected output of the sizes program:\n" + out[-1500:])
    notes = []

    def one(keys, what):
        vs = sorted(set(vals[k][0] for k in keys))
        if len(vs) != 1 or vs[0] == 0:
            raise RuntimeError("%s: the probed sorters do not agree on one cut-off (%s) -- the model has a single constant here"
                               % (what, ", ".join("%s=%d" % (k, vals[k][0]) for k in keys)))
        return vs[0]
    # radix sort -> insertion sort (top level of CE0/CE2/CI2 and their buckets): "n < T" <=> first radix step at n = T
    inssort = one(["ins_ce0", "ins_ce2", "ins_ci2", "insb_ce0", "insb_ce2", "insb_ci2"], "radix/insertion-sort threshold")
    radix16 = one(["radix16_ce3", "radix16_ci3"], "8-bit/16-bit radix switch-over")
    mkqs_thr = vals["mkqs"][0]
    if mkqs_thr == 0:
        raise RuntimeError("multikey_quicksort never partitions for n <= 300: cut-off to insertion sort not found")
    # textual values are only cross-checks
    for name, probed in (("g_inssort_threshold", inssort),):
        tv = _const_value(rs, name)
        if tv is not None and tv != probed:
            notes.append("text says %s = %d but the sorters behave as %d (probe wins)" % (name, tv, probed))
    # stack-frame estimate of mkqs: memory_use + 1 probed on ProbeSet (sizeof known); split into the textual shape when recognisable
    use1, sz_probe = vals["mkqs_use_plus1"]
    if use1 == 0:
        raise RuntimeError("multikey_quicksort: no memory limit <= 4096 lets it partition 300 strings: stack-frame estimate not found")
    words = (use1 - 1 - sz_probe)
    if words < 0 or words % 8 != 0:
        raise RuntimeError("multikey_quicksort: probed memory_use = %d does not have the shape a*sizeof(size_t) + sizeof(StringSet) + b*sizeof(Iterator)" % (use1 - 1))
    mk_a, mk_b = words // 8, 0
    m2 = re.search(r"memory_use\s*=\s*(\d+)\s*\*\s*sizeof\(size_t\)\s*\+\s*sizeof\(StringSet\)\s*\+\s*(\d+)\s*\*\s*sizeof\(Iterator\)\s*;", mk)
    if m2 and int(m2.group(1)) + int(m2.group(2)) == words // 8:
        mk_a, mk_b = int(m2.group(1)), int(m2.group(2))
    else:
        notes.append("mkqs memory_use formula not recognised textually; using the probed %d machine words + sizeof(StringSet)" % (words // 8))
    # pseudo-median threshold: optional (selects among pivots only)
    med9_thr = 30
    m3 = re.search(r"if\s*\(\s*n\s*>\s*(\w+)\s*\)\s*\{\s*//[^\n]*(?:big arrays|pseudo)", mk)
    if m3:
        tok = m3.group(1)
        v = int(tok) if tok.isdigit() else _const_value(mk, tok)
        if v is not None:
            med9_thr = v
    if re.search(r"Iterator\s+pm\s*=\s*a\s*\+\s*\(\s*n\s*/\s*2\s*\)\s*;", mk) is None or re.search(r"size_t\s+d\s*=\s*\(\s*n\s*/\s*8\s*\)\s*;", mk) is None:
        notes.append("pivot rule of multikey_quicksort differs from the model's built-in rule: the model keeps its own "
                     "(any in-range pivot is correct); only contents and LCPs are compared")
    # the radix memory estimates keep the modelled shape?
    if len(re.findall(r"memory_use\s*=\s*2\s*\*\s*sizeof\(size_t\)\s*\+\s*sizeof\(StringSet\)", rs)) != 5:
        raise RuntimeError("radix_sort.hpp: the five memory_use estimates no longer have the modelled shape")
    slacks = [int(x) for x in re.findall(r"memory_slack\s*=\s*(\d+)\s*\*\s*sizeof\(RadixStep\)", rs)]
    if len(slacks) != 5:
        raise RuntimeError("radix_sort.hpp: the five memory_slack estimates no longer have the modelled shape k * sizeof(RadixStep)")
    o = ["(* GENERATED by translate/sizes_c03.py from /repo/tlx/sort/strings/*.hpp -- do not edit *)",
         "From Coq Require Import NArith List.", "Import ListNotations.", "Local Open Scope N_scope.", "",
         "Definition inssort_threshold : N := %d." % inssort,
         "Definition radix16 : N := %d." % radix16,
         "Definition mkqs_threshold : N := %d." % mkqs_thr,
         "Definition mkqs_med9_threshold : N := %d." % med9_thr,
         "Definition mkqs_use_sizet : N := %d." % mk_a,
         "Definition mkqs_use_iter : N := %d." % mk_b,
         "(* memory_slack = k * sizeof(RadixStep), in file order radixsort_CE0, CE2, CE3, CI2, CI3 *)",
         "Definition slack_ce0 : N := %d." % slacks[0], "Definition slack_ce2 : N := %d." % slacks[1],
         "Definition slack_ce3 : N := %d." % slacks[2], "Definition slack_ci2 : N := %d." % slacks[3],
         "Definition slack_ci3 : N := %d." % slacks[4], "",
         "(* per representation (UChar=0, CUChar=1, StdString=2, UPtr=3, Suffix=4, Char=5, CChar=6) and LCP flag:",
         "   sizeof size_t, StringSet, String, Iterator, RadixStep_CE0, _CE2, _CE3, _CI2, _CI3, uint8_t, uint16_t *)",
         "Definition sizes_table : list (N * bool * list N) := ["]
    ent = []
    for name, lcp, *vs in rows:
        idx = [r[0] for r in REPS].index(name)
        ent.append("  ((%d, %s), [%s])  (* %s *)" % (idx, "true" if lcp else "false", "; ".join(str(v) for v in vs), name))
    o.append(";\n".join(ent))
    o.append("].")
    ck.coverage.setdefault("translator_notes", []).append(
        "sizes_c03: %d sizeof rows; thresholds by execution probe: inssort=%d radix16=%d mkqs=%d, mkqs frame=%d words; med9=%d (text)%s"
        % (len(rows), inssort, radix16, mkqs_thr, mk_a + mk_b, med9_thr, ("; " + "; ".join(notes)) if notes else ""))
    ck.c03_sizes = {(r[0], r[1]): r[2:] for r in rows}
    ck.c03_thresholds = {"inssort": inssort, "radix16": radix16, "mkqs": mkqs_thr, "slack": slacks}
    return {"Sizes_C03_gen.v": "\n".join(o) + "\n"}


GENERATE = [generate]
