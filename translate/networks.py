"""C15 translator: regenerate coq/gen/Networks_gen.v from /repo's sorting-network headers.

Two independent extractions, which must agree:
  (1) recording run: the templates are instantiated over an element type that supports nothing but
      being passed by reference, with a recording CSwap functor (direct entry points) or a recording
      comparator that always answers "false" (dispatching sort()); the logged position pairs are the
      network.  A second run with the comparator answering "true" (swaps happen) must log the same
      positions: the network is oblivious.
  (2) textual parse of best.hpp (flat comparator lists).
"""
import os
import re
import sys

sys.path.insert(0, os.path.join(os.path.dirname(os.path.abspath(__file__)), "..", "lib"))
import verif  # noqa: E402

FAMILIES = [("best", "best"), ("bose_nelson", "bn"), ("bose_nelson_parameter", "bnp")]


def _harness_source():
    lines = ['#include <cstdio>', '#include <cstdlib>', '#include <vector>', '#include <utility>',
             '#include <tlx/sort/networks/best.hpp>', '#include <tlx/sort/networks/bose_nelson.hpp>',
             '#include <tlx/sort/networks/bose_nelson_parameter.hpp>',
             'namespace sn = tlx::sort_networks;',
             '// element type with no operation at all except being referred to',
             'struct Opaque { int id; Opaque() : id(0) {} Opaque(const Opaque&) = delete; Opaque(Opaque&&) = delete;',
             '  Opaque& operator=(const Opaque&) = delete; Opaque& operator=(Opaque&&) = delete; };',
             'static Opaque* g_base; static std::vector<std::pair<long,long>> g_log;',
             'struct Rec { void operator()(Opaque& l, Opaque& r) { g_log.emplace_back(&l - g_base, &r - g_base); } };',
             '// movable element for the dispatcher (CS_IfSwap needs std::swap): moves are counted',
             'static long g_moves = 0;',
             'struct Mov { int id; Mov() : id(0) {} Mov(const Mov&) = delete; Mov& operator=(const Mov&) = delete;',
             '  Mov(Mov&& o) noexcept : id(o.id) { ++g_moves; } Mov& operator=(Mov&& o) noexcept { id = o.id; ++g_moves; return *this; } };',
             'static Mov* g_mbase; static bool g_answer = false;',
             '// CS_IfSwap calls cmp(right, left)',
             'struct RecCmp { bool operator()(const Mov& right, const Mov& left) const {',
             '  g_log.emplace_back(&left - g_mbase, &right - g_mbase); return g_answer; } };',
             'static void dump(const char* name, int n) { printf("%s %d", name, n);',
             '  for (auto& p : g_log) printf(" %ld:%ld", p.first, p.second); printf("\\n"); g_log.clear(); }',
             'int main() {', '  Opaque a[16]; g_base = a; Mov m[16]; g_mbase = m;']
    for ns, short in FAMILIES:
        for n in range(2, 17):
            if ns == "bose_nelson_parameter":
                args = ", ".join("a[%d]" % i for i in range(n))
                lines.append('  sn::%s::sort%d<Opaque, Rec>(%s, Rec()); dump("%s.direct", %d);' % (ns, n, args, short, n))
            else:
                lines.append('  sn::%s::sort%d<Opaque*, Rec>(a, Rec()); dump("%s.direct", %d);' % (ns, n, short, n))
        for n in range(0, 17):
            for ans in ("false", "true"):
                lines.append('  g_answer = %s; g_moves = 0; sn::%s::sort(m, m + %d, RecCmp()); '
                             'if (!g_answer && g_moves) { printf("ERROR moves without swap\\n"); return 2; } '
                             'dump("%s.dispatch.%s", %d);' % (ans, ns, n, short, ans, n))
    lines += ['  return 0;', '}']
    return "\n".join(lines) + "\n"


def record(ck):
    """Returns dict name -> {n: [(i,j),...]} or raises RuntimeError(log)."""
    src = os.path.join(ck.scratch, "c15_record.cpp")
    with open(src, "w") as f:
        f.write(_harness_source())
    exe, log = ck.build_cpp("c15_record", [src], flags=["-std=c++17", "-O0", "-g", "-fsanitize=address,undefined",
                                                        "-fno-sanitize-recover=all"])
    if exe is None:
        raise RuntimeError("recording harness does not compile against /repo:\n" + log[-3000:])
    rc, out = verif.sh([exe], timeout=120)
    if rc != 0:
        raise RuntimeError("recording harness failed rc=%d:\n%s" % (rc, out[-3000:]))
    tabs = {}
    for line in out.splitlines():
        parts = line.split()
        if len(parts) < 2:
            continue
        name, n = parts[0], int(parts[1])
        net = [tuple(int(x) for x in p.split(":")) for p in parts[2:]]
        tabs.setdefault(name, {})[n] = net
    return tabs


def parse_best(repo):
    """Textual extraction of best.hpp: sortN bodies are flat lists of cswap(a[i], a[j])."""
    txt = open(os.path.join(repo, "tlx/sort/networks/best.hpp")).read()
    out = {}
    for m in re.finditer(r"static\s+void\s+sort(\d+)\s*\(\s*Iterator\s+a\s*,\s*CSwap\s+cswap\s*=\s*CSwap\(\)\s*\)\s*\{(.*?)\n\}", txt, flags=re.S):
        n = int(m.group(1))
        body = re.sub(r"//[^\n]*", "", m.group(2))
        stmts = [s.strip() for s in body.split(";") if s.strip()]
        net = []
        flat = True
        for s in stmts:
            mm = re.fullmatch(r"cswap\s*\(\s*a\s*\[\s*(\d+)\s*\]\s*,\s*a\s*\[\s*(\d+)\s*\]\s*\)", s)
            if not mm:
                flat = False
                break
            net.append((int(mm.group(1)), int(mm.group(2))))
        if flat:
            out[n] = net
    return out


def coq_net(net):
    return "[" + "; ".join("(%d, %d)" % p for p in net) + "]"


def generate(ck):
    tabs = record(ck)
    notes = []
    # obliviousness: both comparator answers give the same positions
    for _, short in FAMILIES:
        f, t = tabs.get(short + ".dispatch.false", {}), tabs.get(short + ".dispatch.true", {})
        if f != t:
            bad = [n for n in range(0, 17) if f.get(n) != t.get(n)]
            raise RuntimeError("%s::sort is not oblivious (positions depend on comparator answers) for n=%s" % (short, bad))
    textual = parse_best(verif.REPO)
    for n, net in sorted(textual.items()):
        if tabs.get("best.direct", {}).get(n) != net:
            raise RuntimeError("best.hpp sort%d: textual parse and recorded trace disagree" % n)
    notes.append("best.hpp textual parse agreed with the recorded trace for n in %s" % sorted(textual))
    out = ["(* GENERATED by translate/networks.py from /repo/tlx/sort/networks/*.hpp -- do not edit *)",
           "From Coq Require Import List.", "From TLXV Require Import C15.Network.", "Import ListNotations.", ""]
    for _, short in FAMILIES:
        d = tabs.get(short + ".direct", {})
        out.append("Definition %s_direct : list (nat * network) := [" % short)
        out.append(";\n".join("  (%d, %s)" % (n, coq_net(d[n])) for n in sorted(d)))
        out.append("].\n")
        p = tabs.get(short + ".dispatch.false", {})
        out.append("Definition %s_dispatch : list (nat * network) := [" % short)
        out.append(";\n".join("  (%d, %s)" % (n, coq_net(p[n])) for n in sorted(p)))
        out.append("].\n")
    ck.coverage["translator_notes"] = notes
    ck.c15_tables = tabs
    return {"Networks_gen.v": "\n".join(out) + "\n"}


GENERATE = [generate]
